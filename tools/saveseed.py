#!/usr/bin/env python3
"""saveseed.py <prop> <variant> <detected_by_check_or_none> "<what it needs>" : copies a confirmed seeded change into /verif/seeded/"""
import sys, os, shutil, json, re, subprocess
prop, var, det, needs = sys.argv[1:5]
src = "/tmp/wt/%s/_seed/%s" % (prop, var)
log = "/tmp/wt/confirm-%s-%s.log" % (prop, var)
if "w" in prop:          # later waves: C03w4 a -> seeded/C03-w4a
    prop, wave = prop.split("w")
    var = "w%s%s" % (wave, var)
dst = "/verif/seeded/%s-%s" % (prop, var)
shutil.rmtree(dst, ignore_errors=True)
os.makedirs(dst)
for f in os.listdir(src):
    p = os.path.join(src, f)
    if os.path.isfile(p) and os.path.getsize(p) < 300000 and not f.endswith(".log"):
        shutil.copy(p, dst)
conf = {}
if os.path.exists(log):
    t = open(log, errors="replace").read()
    for k in ("DEMO_CLEAN_RC", "BUILD_RC", "DEMO_PATCHED_RC"):
        m = re.search(r"^%s=(-?\d+)" % k, t, re.M)
        conf[k] = int(m.group(1)) if m else None
    conf["suite_counts"] = re.findall(r"^\s*(\d+) (PASS|FAIL|XFAIL|ERROR):?\s*$", t, re.M)
    conf["suite_failures"] = sorted(set(re.findall(r"^(?:FAIL|ERROR): (\S+)", t[t.rfind("\nFAILS:"):] if "\nFAILS:" in t else "", re.M)))
head = subprocess.run(["git", "-C", "/repo", "log", "--format=%h", "-1"], capture_output=True, text=True).stdout.strip()
meta = {"property": prop, "variant": var, "needs_to_manifest": needs,
        "confirmed_by_me": {"how": "tools/confirm_seed.sh in a scratch worktree: demo on clean tree, apply patch, rebuild, demo again, make -k -j8 check (cached per-test build directories removed first)",
                            "result": conf},
        "detected_by": det if det != "none" else None,
        "detected_how": ("git -C /repo apply patch.diff; ./check %s --tier quick -> VIOLATION; git -C /repo checkout -- ." % det) if det != "none" else "not detected by the registered checks (see DESIGN.md)",
        "repo_head_when_tested": head}
json.dump(meta, open(os.path.join(dst, "meta.json"), "w"), indent=1)
print(dst, conf)
