#!/bin/bash
# re-point absolute symlinks into /repo (cached test directories) to the given worktree
d=$1
find $d/tests $d/skeletons -type l -lname '/repo/*' 2>/dev/null | while read l; do t=$(readlink "$l"); ln -sfn "$d${t#/repo}" "$l"; done
