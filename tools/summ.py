#!/usr/bin/env python3
import json,sys,collections
prop=sys.argv[1]
v=json.load(open('/var/tmp/asn1c-verif/last-%s.json'%prop))
c=collections.Counter()
ex={}
for p in v:
    s=p['signature']; k=(s['module'],s['ty'],s['a'],s['syn'],s['reason'])
    c[k]+=1; ex.setdefault(k,p)
grp=collections.Counter()
for k,n in c.items(): grp[(k[2],k[3],k[4])]+=n
for k,n in sorted(grp.items(), key=lambda x:-x[1]): print(n,k, sorted({kk[1] for kk in c if (kk[2],kk[3],kk[4])==k})[:40])
if len(sys.argv)>2:
    for k,p in ex.items():
        if sys.argv[2] in json.dumps(k):
            print("=====",k); print(" val",json.dumps(p['scenario']['val'])[:300])
            for e in p['events']:
                print("  ",json.dumps(e)[:400])
