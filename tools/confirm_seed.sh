#!/bin/bash
# confirm_seed.sh <prop> <a|b|...> : confirms a sub-agent's seeded change in a scratch worktree:
#   demo passes on the clean tree, fails with the patch, tree builds, the project's suite still passes.
# Writes /tmp/wt/confirm-<prop>-<v>.log ; the worktree is removed afterwards.
prop=$1; v=$2; src=/tmp/wt/$prop/_seed/$v
wt=/tmp/wt/cf-$prop-$v; out=/tmp/wt/confirm-$prop-$v.log
exec >$out 2>&1
set -x
git -C /repo worktree remove --force $wt 2>/dev/null
/verif/tools/mkwt.sh cf-$prop-$v || exit 9
cd $wt
make -j5 >/dev/null 2>&1
bash $src/run.sh $wt; echo "DEMO_CLEAN_RC=$?"
git apply $src/patch.diff || { echo APPLY_FAILED; exit 8; }
make -j5 >/dev/null 2>&1; echo "BUILD_RC=$?"
bash $src/run.sh $wt; echo "DEMO_PATCHED_RC=$?"
make -k -j5 check > $wt/check.log 2>&1
grep -h "^PASS:\|^FAIL:\|^XFAIL:\|^ERROR:\|^XPASS:\|^SKIP:" $wt/check.log | sort | uniq -c | sort -rn | awk '{print $2}' | sort | uniq -c
echo "FAILS:"; grep -h "^FAIL:\|^ERROR:" $wt/check.log | sort -u
cd /; git -C /repo worktree remove --force $wt
echo CONFIRM_DONE
