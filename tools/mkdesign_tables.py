#!/usr/bin/env python3
"""rewrites the fixed / open defect tables of DESIGN.md section 14.4 from known_findings.json"""
import json, re
V = "/verif"
d = json.load(open(V + "/known_findings.json"))
fixed = [e for e in d["findings"] if e["status"] == "fixed"]
opn = [e for e in d["findings"] if e["status"] == "open"]
def row(e, withc):
    return "| %s | %s | %s%s |" % (e["id"], ", ".join(e["properties"]), ("`%s` " % e["commit"]) if withc else "", e["what"].replace("|", "/"))
s = open(V + "/DESIGN.md").read()
def put(s, name, head, rows):
    b, e = "<!-- %s-TABLE-BEGIN -->" % name, "<!-- %s-TABLE-END -->" % name
    i, j = s.index(b), s.index(e)
    return s[:i] + b + "\n" + head + "\n|---|---|---|\n" + "\n".join(rows) + "\n" + s[j:]
s = put(s, "FIXED", "| entry | properties | commit, what failed |", [row(e, True) for e in fixed])
s = put(s, "OPEN", "| entry | properties | what fails |", [row(e, False) for e in opn])
import glob, os
desc = {"C11-a": "tag-distinctness scan over a run of non-mandatory components ends at a DEFAULT component",
        "C11-b": "tag distinctness checked before later types are automatically tagged (passes folded into one loop)",
        "C13-b": "UPER semi-constrained INTEGER minimal octets only for the unsigned native representation",
        "C20-a": "enber drops the element after an 8191*k+1 character line",
        "C20-b": "unber aborts when a nested TL straddles the end of its parent by one octet"}
rows = []
for f in sorted(glob.glob(V + "/seeded/*/meta.json")):
    m = json.load(open(f)); d = os.path.dirname(f); n = os.path.basename(d)
    files = [l.split("/", 1)[1].strip() for l in open(d + "/patch.diff") if l.startswith("+++ ")]
    what = desc.get(n) or m.get("needs_to_manifest") or ""
    rows.append("| %s | `%s` | %s | %s |" % (n, ", ".join(files), what.replace("|", "/"), m.get("detected_by") or "**not detected**"))
b, e = "<!-- SEEDS-TABLE-BEGIN -->", "<!-- SEEDS-TABLE-END -->"
i, j = s.index(b), s.index(e)
s = s[:i] + b + "\n| seed | touches | manifests on | caught by (quick) |\n|---|---|---|---|\n" + "\n".join(rows) + "\n" + s[j:]
s = re.sub(r"\b\d+ defects fixed, \d+ recorded", "%d defects fixed, %d recorded" % (len(fixed), len(opn)), s)
s = re.sub(r"driver alone\)\.  \d+ were repaired", "driver alone).  %d were repaired" % len(fixed), s)
open(V + "/DESIGN.md", "w").write(s)
print(len(fixed), "fixed,", len(opn), "open")
