#!/usr/bin/env python3
"""rewrites the fixed / open defect tables of DESIGN.md section 14.4 from known_findings.json"""
import json, re
V = "/verif"
d = json.load(open(V + "/known_findings.json"))
fixed = [e for e in d["findings"] if e["status"] == "fixed"]
opn = [e for e in d["findings"] if e["status"] == "open"]
def row(e, withc):
    return "| %s | %s | %s%s |" % (e["id"], ", ".join(e["properties"]), ("`%s` " % e["commit"]) if withc else "", e["what"].replace("|", "/"))
s = open(V + "/DESIGN.md").read()
def put(s, name, head, rows):
    b, e = "<!-- %s-TABLE-BEGIN -->" % name, "<!-- %s-TABLE-END -->" % name
    i, j = s.index(b), s.index(e)
    return s[:i] + b + "\n" + head + "\n|---|---|---|\n" + "\n".join(rows) + "\n" + s[j:]
s = put(s, "FIXED", "| entry | properties | commit, what failed |", [row(e, True) for e in fixed])
s = put(s, "OPEN", "| entry | properties | what fails |", [row(e, False) for e in opn])
s = re.sub(r"\b\d+ defects fixed, \d+ recorded", "%d defects fixed, %d recorded" % (len(fixed), len(opn)), s)
s = re.sub(r"driver alone\)\.  \d+ were repaired", "driver alone).  %d were repaired" % len(fixed), s)
open(V + "/DESIGN.md", "w").write(s)
print(len(fixed), "fixed,", len(opn), "open")
