#!/bin/sh
# mkwt.sh <name>: scratch git worktree of /repo under /tmp/wt/<name>, with /repo's
# configured build state copied in so that `make` works there without autoreconf.
set -e
n="$1"; d=/tmp/wt/$n
mkdir -p /tmp/wt
git -C /repo worktree add --detach "$d" HEAD >/dev/null 2>&1
rsync -a --exclude /.git /repo/ "$d"/
# make the tree self-consistent: absolute paths in generated Makefiles point at /repo
grep -rl --include=Makefile --include=config.status --include=libtool -e '/repo' "$d" 2>/dev/null | xargs -r sed -i "s#/repo#$d#g"
/verif/tools/fixlinks.sh "$d"
echo "$d"
