#!/bin/sh
# mkwt.sh <name>: scratch git worktree of /repo under /tmp/wt/<name>, with /repo's
# configured build state copied in so that `make` works there without autoreconf.
set -e
n="$1"; d=/tmp/wt/$n
mkdir -p /tmp/wt
git -C /repo worktree add --detach "$d" HEAD >/dev/null 2>&1
rsync -a --exclude /.git /repo/ "$d"/
# make the tree self-consistent: absolute paths in generated Makefiles point at /repo
grep -rl --include=Makefile --include=config.status --include=libtool -e '/repo' "$d" 2>/dev/null | xargs -r sed -i "s#/repo#$d#g"
# tracked files must be exactly HEAD even if /repo's working tree is being edited right now
git -C "$d" reset --hard -q HEAD
# cached per-test build directories carry "succeeded before" stamps and links into /repo:
# drop them so that the suite really re-runs against this tree
rm -rf "$d"/tests/tests-c-compiler/test-check-* "$d"/tests/tests-randomized/.tmp.*
/verif/tools/fixlinks.sh "$d"
echo "$d"
