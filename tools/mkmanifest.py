#!/usr/bin/env python3
"""Regenerates /verif/MANIFEST.json from the table below (one source of truth)."""
import json, os
V = os.path.dirname(os.path.dirname(os.path.abspath(__file__)))
props = [json.loads(l) for l in open(os.path.join(V, "properties.jsonl"))]

TRUST = ("trusted: the TLA+ transcription of X.680/X.690/X.691/X.696 in spec/ (no standard text offline; known-answer vectors "
         "in MC_BER), TLC + Json module, the python glue (ASN.1 rendering, marshalling), the driver's descriptor-walking "
         "build/project pair; bounded value and type universes (spec/Universe.tla, spec/Values.tla)")

CLAIMED = {
 "C01": ("model_checking", "7 C01",
         "TLC enumerates every session (type x boundary value x encode/decode/compare plan) of the Codec state machine over the "
         "universe modules, checks RoundTrip/WireCanonical on the model and exports each behaviour; each is replayed on code "
         "generated from /repo's working tree and the recorded trace is validated by TLC against Codec.tla (Trace_Codec): rc, "
         "consumed, decoded value (projected without a codec), comparison result and DER re-encoding must be the ones the "
         "specification prescribes. Right level: the property is a relation between an independent reference and the library "
         "over programs x values, decided per behaviour by conformance.",
         "TLA+ Codec state machine + TLC-generated sessions replayed on generated code + TLC trace validation"),
 "C02": ("model_checking", "7 C02",
         "the TLA+ reference encoders (BER.tla, UPER.tla, OER.tla, transcribed from the standards, parameterised by the effective "
         "constraints computed in Asn1Types.tla) define the expected octets for every (type, value) TLC enumerates; Encode events "
         "recorded from the generated code are accepted by the trace specification only when byte-identical.",
         "TLA+ reference encoders (DER/UPER/OER) + TLC enumeration + byte-exact trace validation"),
 "C03": ("model_checking", "7 C03",
         "Variants.tla defines the relation 'b is a valid encoding of v' beyond the canonical forms (BER length forms, indefinite lengths, "
         "constructed strings, SET order, explicit DEFAULTs, TRUE octet, unknown extension additions; BASIC-PER/OER explicit defaults and "
         "unknown extensions; XER layouts). TLC enumerates every (type, value, style); each variant is decoded by the generated code and the "
         "trace is accepted only for RC_OK, full length consumed, the specified value and the canonical DER re-encoding. Also: BER length padding beyond sizeof(size_t), REAL in every binary form of X.690 8.5.7 and as ISO 6093 text, up to 130 unknown extension additions, XER character references, time values in non-canonical text.",
         "TLA+ variant-encoding relation + TLC enumeration + trace validation of decode results"),
 "C05": ("model_checking", "7 C05",
         "Codec.tla models a restartable decoding session (stream, position, per-call contract: WMORE with consumed <= presented while "
         "octets are missing; OK, everything consumed and the value delivered once they are all there). TLC generates, for every (type, "
         "value), every 2-chunk split of the reference encoding (thorough: every chunking of short encodings, octet-wise feeding); the "
         "driver re-presents unconsumed octets as the manual prescribes and every decoder call is one trace event validated by TLC. The same splits are applied to the all-indefinite BER form of every value.",
         "TLA+ restartable-decoder contract + TLC-enumerated chunk schedules + per-call trace validation"),
 "C06": ("model_checking", "7 C06",
         "in Codec.tla a representation change (BuildRep) leaves the abstract value unchanged, and the encoders are functions of the abstract "
         "value; TLC enumerates, per (type, value), every applicable representation (SET OF order, INTEGER padding, explicit DEFAULT, unused-bit "
         "noise, non-canonical TRUE, decode from a non-canonical BER variant) x canonical syntax; the trace is accepted only if the structure "
         "compares equal and the encoder output equals that of the canonical structure (DER/UPER/OER: the reference octets).",
         "TLA+ abstract-value encoders + TLC-enumerated representation changes + trace validation"),
 "C08": ("model_checking", "7 C08",
         "Valid(T, v) in Asn1Types.tla is the set-theoretic meaning of the value, SIZE and alphabet constraints at every depth; Values.tla "
         "derives from every valid value the values violating exactly one constraint at one position. TLC enumerates them; the driver builds each "
         "structure directly (no codec) and calls asn_check_constraints with every interesting error-buffer size; the trace is accepted only if "
         "the verdict equals Valid and the message is bounded, terminated and names a type.",
         "TLA+ constraint semantics + TLC-enumerated single-constraint violations + trace validation"),
 "C07": ("model_checking", "7 C07",
         "Codec.tla states the encoder API contract as relations (EncodeCb: a failed callback => -1/EIO, otherwise ret = octets delivered = the "
         "size every other entry point reports; EncodeBuf: same size for every buffer size, nothing written beyond the buffer, the encoding when it "
         "fits; Encode to a new buffer: buffer iff success; unvouched structures: -1 with an errno or a consistent encoding; Crash/Timeout events "
         "have no action). TLC enumerates (type, value | violated value | zero structure) x syntax x buffer size x failing-callback index. Callback failure is swept over every callback index (once / from that index on) inside the driver; structures that denote no value (absent mandatory pointer member, unselected CHOICE) must fail to encode.",
         "TLA+ encoder-sink contract + TLC-enumerated sizes / failure indices + trace validation"),
 "C14": ("model_checking", "7 C14",
         "Codec.tla tracks which slots own a structure (none / value / raw / zero), an armed allocation failure (fault) and the restartable "
         "session; Free of the last owner requires an empty allocation ledger, Reset requires an all-zero structure that then decodes like a fresh one, "
         "a call in which the armed failure fired may only fail or succeed cleanly. TLC enumerates the histories (starved decode / garbage / reset / "
         "re-decode / encode / free x failure of the k-th allocation); the driver's link-time wrapped allocator supplies the ledger and the failures; "
         "ASan turns double frees into Crash events, which no action explains. Allocation failure is swept over every allocation index of every encode and decode; valid encodings of values the native C representation cannot hold are decoded and freed.",
         "TLA+ lifecycle/ledger state machine + TLC-enumerated histories and allocation-failure points + trace validation (ASan build)"),
 "C04": ("exploration", "7 C04",
         "TLC applies the mutation actions of MC_Gen (every truncation, byte substitutions at every position, duplicated tail, dropped byte, "
         "appended octets) to the reference encodings in DER/OER/UPER/XER; each mutated input is decoded, printed, validated, re-encoded, the "
         "re-encoding decoded and compared, and freed, in an ASan+UBSan build; Trace_Codec accepts only rc in {OK,WMORE,FAIL}, consumed <= size, a "
         "consistent re-encoding and an empty ledger; sanitizer reports, aborts and watchdog timeouts are Crash/Timeout events. Memory safety is "
         "observed on the explored inputs, not proved. Inputs include indefinite-form BER, 16K..64K-element values encoded by the implementation itself, and OBJECT IDENTIFIERs of up to 45 arcs.",
         "TLC-generated structure-aware mutations + sanitizer build + TLA+ trace validation of the decode contract"),
 "C16": ("model_checking", "7 C16",
         "Helpers.tla states the conversion helpers as relations (contents = minimal two's complement; back conversion ok iff the value fits the C "
         "type, ERANGE otherwise; REAL contents = X.690 8.5/11.3 canonical form and bit-exact round trip; numerals accepted iff in range). TLC "
         "enumerates the boundary-exhaustive argument sets of MC_Helpers.tla, the helper driver performs each call on the library (ASan build) and "
         "TLC validates every recorded call against the relation.",
         "TLA+ helper relations + TLC-enumerated boundary arguments + trace validation"),
 "C17": ("model_checking", "7 C17",
         "Helpers.tla: OBJECT IDENTIFIER contents per X.690 8.19 on arbitrary-precision arcs, dotted text, the get_arcs slot protocol; proleptic "
         "Gregorian civil-from-days and the canonical forced-GMT GeneralizedTime/UTCTime text. TLC enumerates arc vectors and (day, second, "
         "fraction, TZ) tuples at the calendar edges; the driver runs each call under the given POSIX TZ; TLC validates text and round trip.",
         "TLA+ OID/time relations + TLC-enumerated edges x time zones + trace validation"),
 "C11": ("model_checking", "7 C11",
         "Asn1Tags.tla contains an independent implementation of exactly the rules the property names (outermost tag sets through untagged CHOICEs and "
         "references after the IMPLICIT/EXPLICIT/AUTOMATIC transformation; CHOICE / SET distinctness; SEQUENCE OPTIONAL runs; duplicate identifiers and "
         "enumeration items; dangling references). MC_Legal.tla is the module-construction state machine; TLC enumerates every module of the stated "
         "size breadth-first, asn1c built from the working tree is run on each, and TLC validates the run: exit = 0 <=> Legal, rejection with a "
         "diagnostic and without output files, never a signal. The machine also places an extension marker, duplicates identifiers / enumeration items behind it, uses alias references, and imports a type from a second module that may be missing, lack the symbol, or not export it.",
         "TLA+ legality rules + TLC-enumerated module construction state machine + trace validation of compiler runs"),
 "C09": ("model_checking", "7 C09",
         "Asn1Types.tla gives constraint expressions a set-theoretic meaning (Sat) and derives the PER-visible (Eff) and OER-visible (OerEff) effective "
         "constraints; MC_Constraints.tla checks on the model that the interval abstraction is sound for every expression, enumerates every expression "
         "tree up to depth 2, and validates the ranges asn1c prints (-E -F -print-constraints) against Eff / OerEff; the layout the generated codecs "
         "actually use is validated byte-exactly against the reference encoders on types built from expression trees (module VC).",
         "TLA+ constraint semantics + TLC-enumerated expression trees + validation of printed ranges and codec octets"),
 "C13": ("model_checking", "7 C13",
         "Codec.tla: an encoding adopted from another build of the same module is THE encoding of that syntax for the session value (canonical "
         "encoders are functions of the abstract value and take no options), so the option build's Encode must reproduce it, its decoder must "
         "return the session value for it, and the structures must compare equal. TLC enumerates (type, value, syntax); the glue builds the "
         "module under each option set from the working tree; the descriptor-walking driver is independent of the C representation.",
         "TLA+ canonical-encoder rule across builds + TLC-enumerated values + trace validation per option set"),
 "C10": ("exploration", "7 C10",
         "MC_Pipeline.tla is the compiler pipeline protocol (asn1c -> cc -> c++ headers -> link -> descriptor consistency) over runs = (source module, "
         "option set); TLC enumerates the runs, the glue performs them with the compiler built from the working tree, and the trace specification "
         "accepts a run only if asn1c ended by exit, a rejection carried a diagnostic, and every stage after exit 0 succeeded. TLA+ cannot decide 'this C "
         "file compiles': that is observed with gcc / g++ / the descriptor-walking driver on the enumerated programs.",
         "TLC-enumerated (program, option set) runs + TLA+ pipeline protocol monitor over observed build stages"),
 "C12": ("model_checking", "7 C12",
         "MC_Runs.tla models the compiler as a function: the history variable 'known' maps an abstract input key (exact invocation; set of files; "
         "file text under -E) to the output digest first observed, and every later run with the same key must reproduce it (invariant Functional). "
         "TLC enumerates the run schedules (repeats, every permutation of up to 3 files, one and two print cycles, compile-the-printed-text); each run "
         "is a separate asn1c process under ASLR; the recorded digests are validated by TLC against the history.",
         "TLA+ history-variable function-consistency monitor + TLC-enumerated run schedules + trace validation"),
 "C20": ("model_checking", "7 C20",
         "MC_Tlv.tla defines untyped TLV forests, their serialisation Ser and the fields Fields(forest) that `unber -p` must print (invariant "
         "FieldsSound relates them); TLC enumerates the forests and the truncations / byte substitutions of their octets; ASan+UBSan builds of unber "
         "and enber from the working tree are run on each; TLC validates the printed fields, the enber round trip and the exit-with-diagnostic "
         "contract on damaged input.",
         "TLA+ TLV forest model + TLC-enumerated forests and mutants + trace validation of the tools (sanitizer build)"),
 "C15": ("exploration", "7 C15",
         "MC_Deep.tla writes adversarial inputs in closed form (segments): d-fold nesting of recursive types in every syntax, nested constructed strings, "
         "maximal length prefixes with no data, zero-width elements with maximal counts; the invariant DeepIsEncoding ties the closed forms to the "
         "reference encoders for small d. TLC enumerates depth x stack limit x syntax; the driver decodes each on an 8 MiB stack with the link-time "
         "allocator ledger recording the peak heap; the trace specification accepts only a returned call (no fatal signal / timeout) with peak heap <= "
         "256 n + 1 MiB. Stack use itself is observed through the process status, not measured.",
         "TLA+ closed-form adversarial inputs + TLC enumeration + trace validation of termination / heap bound"),
 "C18": ("model_checking", "7 C18",
         "Asn1Types.tla models an open type governed by an object set as a CHOICE-like type whose alternatives are the rows, inside a frame "
         "SEQUENCE { id, val }; IocConsistent is the component relation constraint (the selected row is the one paired with the identifier value). "
         "The reference encoders (BER.tla, UPER.tla, OER.tla, XER.tla, Variants.tla) give the encodings of every frame value; Values!IocCorruptions "
         "replaces the identifier by one without a row or by another row's. TLC enumerates frames x rows x boundary values x plans (round trip, all "
         "BER styles / XER layouts, 2-chunk splits, corrupted pairings, byte mutations, allocation failures, reset + re-decode); the sessions are "
         "replayed on an ASan+UBSan build of the generated code with the allocation ledger (also under -fwide-types / -findirect-choice "
         "-fcompound-names) and TLC validates each trace against Codec.tla: a decode that selects another row, accepts an identifier without a row, "
         "crashes or leaves a block unreleased is a trace no spec action explains. The object-set universe is a fixed set of modules (VO, VP).",
         "TLA+ open type / component relation model + TLC-enumerated sessions + trace validation on a sanitizer build"),
 "C19": ("exploration", "7 C19",
         "Threads.tla: N threads stepping thread-local Codec sessions; TLC explores every interleaving of small scripts and checks that each thread's "
         "history is the sequential one and that no step writes shared state. Binding: codec sessions over (type, value, syntax) are dealt to 2..8 "
         "threads released together, in several random deals, in a plain and a ThreadSanitizer build; every thread's trace must equal the trace of the "
         "same session run alone and is validated by TLC against Codec.tla independently of the schedule; a TSan report, crash or hang fails the check. "
         "Interleavings are sampled, not enumerated; absence of races is observed, not proved.",
         "TLA+ thread-local session model (TLC: all interleavings of small scripts) + concurrent replay under TSan + per-thread trace validation"),
}

checks = []
for pid, (cat, ref, text, tech) in sorted(CLAIMED.items()):
    checks.append({"property_id": pid, "quick_cmd": "./check %s --tier quick" % pid,
                   "thorough_cmd": "./check %s --tier thorough" % pid,
                   "evidence_file": "evidence/%s.json" % pid,
                   "replay_cmd_template": "./check %s --replay {path}" % pid,
                   "engine": "tla-codec",
                   "level_claimed": {"category": cat, "text": text, "design_ref": "DESIGN.md section " + ref + " and 14.3"},
                   "level_note": TRUST, "technique": tech})
m = {"version": 1,
     "setup_cmd": "./tools/setup.sh",
     "hooks": {"guard": "ASN1C_VERIF",
               "enable": "no source hooks are needed: abstract state is projected from outside (descriptor-walking driver, --wrap allocator); checks rsync /repo's working tree to $VERIF_SCRATCH and build there",
               "baseline_off_cmd": "cd /repo && make -k check", "source_commits": [], "add_only": True},
     "engines": [{"name": "tla-codec", "path": "spec/", "serves_properties": sorted(CLAIMED),
                  "kind_free_text": "explicit TLA+ specification (type algebra, reference encoders, codec API state machine) checked with TLC; TLC-generated behaviours replayed on the implementation; recorded traces validated by TLC"}],
     "checks": checks,
     "notes": "checks are registered as they become quiet on the unchanged tree; known genuine defects are listed in known_findings.json",
     "not_applicable": [{"property_id": p["id"], "reason": "not claimed: see DESIGN.md section 14.6"}
                        for p in props if p["id"] not in CLAIMED]}
json.dump(m, open(os.path.join(V, "MANIFEST.json"), "w"), indent=1)
print("claimed:", sorted(CLAIMED))
