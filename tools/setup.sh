#!/bin/sh
# Offline setup: parse every specification module once (fails early on a broken spec).
cd "$(dirname "$0")/../spec" || exit 1
for f in MC_TimeText MC_BigInt MC_BER MC_Gen Trace_Codec MC_Helpers MC_OidApi MC_Mod MC_Legal MC_Constraints MC_Pipeline MC_Runs MC_Tlv MC_Deep MC_Threads; do
  tla-sany $f.tla >/tmp/verif-sany.$$ 2>&1 || { cat /tmp/verif-sany.$$; rm -f /tmp/verif-sany.$$; exit 1; }
done
rm -f /tmp/verif-sany.$$
mkdir -p "${VERIF_SCRATCH:-/var/tmp/asn1c-verif}"
exit 0
