#!/bin/bash
# runall.sh [tier] : every registered check in sequence on /repo's working tree; summary in $VERIF_SCRATCH/runall-<tier>.log
tier=${1:-quick}; out=${VERIF_SCRATCH:-/var/tmp/asn1c-verif}/runall-$tier.log
mkdir -p $(dirname $out); : > $out
for p in ${PROPS:-C01 C02 C03 C04 C05 C06 C07 C08 C09 C10 C11 C12 C13 C14 C15 C16 C17 C18 C19 C20}; do
  s=$(date +%s)
  ( cd "$(dirname "$0")/.." && timeout ${TMO:-7200} ./check $p --tier $tier > ${out%.log}-$p.out 2>&1 ); rc=$?
  e=$(date +%s)
  echo "$p rc=$rc wall=$((e-s))s violations=$(grep -c '^VIOLATION' ${out%.log}-$p.out) known=$(grep -c '^KNOWN-FINDING' ${out%.log}-$p.out)" >> $out
done
echo ALLDONE >> $out
