#!/bin/bash
# seedtest.sh <patch.diff> <prop>... : apply a seeded change to /repo, run the quick checks, undo it
patch=$1; shift
git -C /repo apply $patch || { echo "apply failed"; exit 9; }
for p in "$@"; do
  ( cd /verif && timeout 3000 ./check $p --tier ${TIER:-quick} 2>&1 | grep -v "^KNOWN-FINDING" | grep "VIOLATION\|INFRA\|Traceback" | head -5; echo "$p exit=${PIPESTATUS[0]}" )
done
git -C /repo checkout -- .
git -C /repo status --short | head -3
