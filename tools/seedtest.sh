#!/bin/bash
# seedtest.sh <patch.diff> <prop>... : apply a seeded change to /repo, run the quick checks, undo it
patch=$1; shift
rm -rf /tmp/wt/ev-keep; cp -a /verif/evidence /tmp/wt/ev-keep   # evidence must come from the unchanged tree only
git -C /repo apply $patch || { echo "apply failed"; exit 9; }
for p in "$@"; do
  ( cd /verif && timeout 3000 ./check $p --tier ${TIER:-quick} 2>&1 | grep -v "^KNOWN-FINDING" | grep "VIOLATION\|INFRA\|Traceback" | head -5; echo "$p exit=${PIPESTATUS[0]}" )
done
git -C /repo checkout -- .
cp -a /tmp/wt/ev-keep/. /verif/evidence/; rm -rf /tmp/wt/ev-keep
git -C /repo status --short | head -3
