------------------------------ MODULE Threads ------------------------------
(***************************************************************************)
(* C19: N threads, each owning its own codec sessions and sharing only the *)
(* read-only type descriptors.  A thread's k-th call is a step of ITS      *)
(* session state only (Codec!Step on thread-local variables), so every     *)
(* interleaving yields, per thread, exactly the sequential behaviour: the  *)
(* invariant Sequential says the per-thread history is a prefix of the     *)
(* thread's script, whatever the other threads did in between, and Globals *)
(* (the library's writable static storage) is never changed by a step.     *)
(* TLC explores all interleavings of small scripts; the binding replays    *)
(* sessions concurrently and validates each thread's trace with            *)
(* Trace_Codec independently of the schedule (per-thread sequence numbers, *)
(* no cross-thread order is assumed), under ThreadSanitizer.               *)
(***************************************************************************)
EXTENDS Naturals, Sequences, FiniteSets, TLC

CONSTANTS Thread, Script        \* Script[t]: the sequence of abstract calls of thread t

VARIABLES done,      \* done[t]: calls performed so far by thread t (its observable history)
          globals    \* the library's writable static storage (abstractly: a version number)

Init == done = [t \in Thread |-> <<>>] /\ globals = 0
\* the result of a call depends on the thread's own history only
Result(t, k) == <<t, k, Script[t][k]>>
Step(t) == /\ Len(done[t]) < Len(Script[t])
           /\ done' = [done EXCEPT ![t] = Append(@, Result(t, Len(@) + 1))]
           /\ UNCHANGED globals                                  \* reentrancy: no call writes shared state
Next == \E t \in Thread : Step(t)
Spec == Init /\ [][Next]_<<done, globals>>

Sequential == \A t \in Thread : \A k \in DOMAIN done[t] : done[t][k] = Result(t, k)
GlobalsUntouched == globals = 0
=============================================================================
