
