-------------------------------- MODULE XER --------------------------------
(***************************************************************************)
(* X.693: the XML Encoding Rules as a generator of valid encodings.        *)
(* XerTokens(env, name, T, v) is the token sequence of the canonical       *)
(* encoding (start tag, content, end tag; member elements named by         *)
(* identifier; SEQUENCE OF items named by type, or given as empty-element  *)
(* value lists for BOOLEAN / ENUMERATED / NULL); Ser(tokens, layout)       *)
(* renders it to octets under a layout (white-space / comments between     *)
(* tokens, which BASIC-XER leaves free).  Octet-exactness of the library's *)
(* XER output is not asserted anywhere; these encodings are INPUTS for the *)
(* decoders (C03, C05) and must be accepted by them.                       *)
(* A token is [k |-> "open" | "close" | "empty" | "text", s |-> octets].   *)
(***************************************************************************)
EXTENDS OER

Str(s) == s     \* strings are given as sequences of character codes

\* ---- names ----------------------------------------------------------------
\* ASCII codes of a TLA+ string are not accessible; element names are therefore carried as
\* code sequences in NameCodes (filled by the generator from the module: member and type
\* names are TLA+ strings in the type terms, and their character codes come with the
\* scenario).  Names(n) must be defined for every identifier occurring in the module.
CONSTANT NameCodes          \* [string -> sequence of character codes]
Nm(n) == NameCodes[n]

BuiltinName(T) ==
  CASE T.k = "BOOLEAN" -> "BOOLEAN" [] T.k = "NULL" -> "NULL" [] T.k = "INTEGER" -> "INTEGER"
    [] T.k = "ENUM" -> "ENUMERATED" [] T.k = "REAL" -> "REAL" [] T.k = "BITS" -> "BIT_STRING"
    [] T.k = "OCTETS" -> "OCTET_STRING" [] T.k = "OID" -> "OBJECT_IDENTIFIER" [] T.k = "RELOID" -> "RELATIVE-OID"
    [] T.k = "SEQUENCE" -> "SEQUENCE" [] T.k = "SET" -> "SET" [] T.k = "CHOICE" -> "CHOICE"
    [] T.k = "SEQOF" -> "SEQUENCE_OF" [] T.k = "SETOF" -> "SET_OF"
    [] T.k = "STRING" ->
         (CASE T.st = "IA5" -> "IA5String" [] T.st = "Visible" -> "VisibleString" [] T.st = "Printable" -> "PrintableString"
            [] T.st = "Numeric" -> "NumericString" [] T.st = "UTF8" -> "UTF8String" [] T.st = "BMP" -> "BMPString"
            [] T.st = "Universal" -> "UniversalString" [] T.st = "UTCTime" -> "UTCTime"
            [] T.st = "GeneralizedTime" -> "GeneralizedTime")

\* the element name of an item of SEQUENCE OF / SET OF T: the referenced type's name, else the
\* built-in type name (tags are transparent)
RECURSIVE ItemName(_)
ItemName(T) == IF IsRef(T) THEN T.n ELSE IF T.k = "TAGGED" THEN ItemName(T.t) ELSE BuiltinName(T)

\* g: white-space (or a comment) may precede this token; true only for tokens that are direct
\* children of a constructed type's content (between member elements), where it is insignificant
Open(n) == [k |-> "open", s |-> Nm(n), g |-> FALSE]
Close(n) == [k |-> "close", s |-> Nm(n), g |-> FALSE]
Empty(n) == [k |-> "empty", s |-> Nm(n), g |-> FALSE]
Text(s) == [k |-> "text", s |-> s, g |-> FALSE]
\* character data given as code points: '&', '<', '>' are written as references when serialised
Chars(s) == [k |-> "chars", s |-> s, g |-> FALSE]
Gapped(toks) == IF toks = <<>> THEN <<>> ELSE <<[toks[1] EXCEPT !.g = TRUE]>> \o Tail(toks)

\* ---- contents of primitive types --------------------------------------------
HexDigit(d) == IF d < 10 THEN 48 + d ELSE 55 + d                 \* upper case
HexText(o) == ConcatAll([i \in DOMAIN o |-> <<HexDigit(o[i] \div 16), HexDigit(o[i] % 16)>>])
BitText(b) == [i \in 1..b.n |-> 48 + AllBits(b.o)[i]]
RECURSIVE DecText(_)
DecText(n) == IF n < 10 THEN <<48 + n>> ELSE DecText(n \div 10) \o <<48 + (n % 10)>>
ArcsText(a) == ConcatAll([i \in DOMAIN a |-> (IF i = 1 THEN <<>> ELSE <<46>>) \o DecText(a[i])])

\* REAL: only values with a short exact decimal text are given as XER input
RealTexts == [d \in {<<0,0,0,0,0,0,0,0>>, <<63,240,0,0,0,0,0,0>>, <<191,240,0,0,0,0,0,0>>, <<63,224,0,0,0,0,0,0>>,
                     <<64,36,0,0,0,0,0,0>>, <<65,224,0,0,0,0,0,0>>} |->
  CASE d = <<0,0,0,0,0,0,0,0>> -> <<48>>
    [] d = <<63,240,0,0,0,0,0,0>> -> <<49,46,48,69,48>>                       \* 1.0E0
    [] d = <<191,240,0,0,0,0,0,0>> -> <<45,49,46,48,69,48>>                   \* -1.0E0
    [] d = <<63,224,0,0,0,0,0,0>> -> <<53,46,48,69,45,49>>                    \* 5.0E-1
    [] d = <<64,36,0,0,0,0,0,0>> -> <<49,46,48,69,49>>                        \* 1.0E1
    [] d = <<65,224,0,0,0,0,0,0>> -> <<50,49,52,55,52,56,51,54,52,56,46,48,69,48>>]   \* 2147483648.0E0
RealSpecial(d) == CASE d = <<127,240,0,0,0,0,0,0>> -> "PLUS-INFINITY"
                    [] d = <<255,240,0,0,0,0,0,0>> -> "MINUS-INFINITY"
                    [] d = <<127,248,0,0,0,0,0,0>> -> "NOT-A-NUMBER"
                    [] OTHER -> ""

\* characters that need no escaping in character data
PlainChar(c) == c >= 32 /\ c # 127 /\ c < 55296

\* can this value be written as XER text by this generator?
RECURSIVE XerWritable(_, _, _)
XerWritable(env, T0, v) ==
  LET T == Resolve(env, T0) IN
  CASE T.k = "REAL" -> v \in DOMAIN RealTexts \/ RealSpecial(v) # ""
    [] T.k = "STRING" -> \A i \in DOMAIN v : PlainChar(v[i])
    [] T.k \in {"SEQUENCE", "SET"} ->
         \A i \in DOMAIN AllComps(T) : IsPres(v[i]) => XerWritable(env, AllComps(T)[i].t, v[i][1])
    [] ChoiceLike(T.k) -> XerWritable(env, CompByName(T, AltOf(v)).t, AltVal(v))
    [] T.k \in {"SEQOF", "SETOF"} -> \A i \in DOMAIN v : XerWritable(env, T.t, v[i])
    [] OTHER -> TRUE

\* BOOLEAN, ENUMERATED and NULL items of a SEQUENCE OF are written as a value list of empty
\* elements without a wrapper (X.693 8.4 / X.680 table 5)
IsValueListKind(env, T) == Resolve(env, T).k \in {"BOOLEAN", "ENUM", "NULL"}

EnumName(T, v) == (CHOOSE it \in SeqRange(T.root \o T.adds) : it.v = v).n

RECURSIVE Content(_, _, _)
Elem(env, name, T, v) ==
  LET c == Content(env, T, v)
      cl == [Close(name) EXCEPT !.g = IsConstructedKind(Resolve(env, T).k)]
  IN <<Open(name)>> \o c \o <<cl>>
Content(env, T0, v) ==
  LET T == Resolve(env, T0) IN
  CASE T.k = "BOOLEAN" -> <<Empty(IF v THEN "true" ELSE "false")>>
    [] T.k = "NULL" -> <<>>
    [] T.k = "INTEGER" -> <<Text(IDecimal(v))>>
    [] T.k = "ENUM" -> <<Empty(EnumName(T, v))>>
    [] T.k = "REAL" -> IF RealSpecial(v) # "" THEN <<Empty(RealSpecial(v))>> ELSE <<Text(RealTexts[v])>>
    [] T.k = "BITS" -> IF v.n = 0 THEN <<>> ELSE <<Text(BitText(v))>>
    [] T.k = "OCTETS" -> IF v = <<>> THEN <<>> ELSE <<Text(HexText(v))>>
    [] T.k = "STRING" -> IF v = <<>> THEN <<>> ELSE <<Chars(v)>>
    [] T.k = "OID" -> <<Text(ArcsText(v))>>
    [] T.k = "RELOID" -> <<Text(ArcsText(v))>>
    [] T.k \in {"SEQUENCE", "SET"} ->
         LET cs == AllComps(T)
         IN ConcatAll([i \in DOMAIN cs |-> IF Encoded(env, cs[i], v[i]) THEN Gapped(Elem(env, cs[i].n, cs[i].t, v[i][1])) ELSE <<>>])
    [] ChoiceLike(T.k) -> Gapped(Elem(env, AltOf(v), CompByName(T, AltOf(v)).t, AltVal(v)))
    [] T.k \in {"SEQOF", "SETOF"} ->
         \* items: value list of empty elements for BOOLEAN / ENUMERATED / NULL; the alternative's own
         \* element for a CHOICE item; otherwise an element named after the item type
         ConcatAll([i \in DOMAIN v |->
            Gapped(IF Resolve(env, T.t).k = "NULL" THEN <<Empty("NULL")>>
                   ELSE IF IsValueListKind(env, T.t) \/ Resolve(env, T.t).k = "CHOICE" THEN Content(env, T.t, v[i])
                   ELSE Elem(env, ItemName(T.t), T.t, v[i]))])

XerTokens(env, name, T, v) == Elem(env, name, T, v)

\* ---- serialisation -----------------------------------------------------------
\* references: the predefined entities, or (layout "numeric") decimal / hexadecimal character references
EscChar(c, layout) ==
  IF c = 38 THEN (IF layout = "numeric" THEN <<38, 35, 51, 56, 59>> ELSE <<38, 97, 109, 112, 59>>)                 \* &#38;  &amp;
  ELSE IF c = 60 THEN (IF layout = "numeric" THEN <<38, 35, 120, 51, 67, 59>> ELSE <<38, 108, 116, 59>>)           \* &#x3C; &lt;
  ELSE IF c = 62 THEN (IF layout = "numeric" THEN <<38, 35, 54, 50, 59>> ELSE <<38, 103, 116, 59>>)                \* &#62;  &gt;
  ELSE Utf8Char(c)
NeedsRef(toks) == \E i \in DOMAIN toks : toks[i].k = "chars" /\ \E j \in DOMAIN toks[i].s : toks[i].s[j] \in {38, 60, 62}
TokOctetsL(t, layout) ==
                CASE t.k = "open" -> <<60>> \o t.s \o <<62>>
                  [] t.k = "close" -> <<60, 47>> \o t.s \o <<62>>
                  [] t.k = "empty" -> <<60>> \o t.s \o <<47, 62>>
                  [] t.k = "text" -> t.s
                  [] t.k = "chars" -> ConcatAll([i \in DOMAIN t.s |-> EscChar(t.s[i], layout)])
\* layout: "canon" (no white-space), "lf" (line feed + 4 spaces before every tag, as the usual
\* pretty printing), "crlf-tab" (CR LF TAB), "comment" (an XML comment between elements).
\* White-space is only inserted where it is insignificant: never next to character data.
Gap(layout) == CASE layout \in {"canon", "numeric"} -> <<>>
                 [] layout = "lf" -> <<10, 32, 32, 32, 32>>
                 [] layout = "crlf-tab" -> <<13, 10, 9>>
                 [] layout = "comment" -> <<32, 60, 33, 45, 45, 32, 120, 32, 45, 45, 62, 10>>   \* " <!-- x -->\n"
Ser(toks, layout) ==
  ConcatAll([i \in DOMAIN toks |->
     (IF toks[i].g THEN Gap(layout) ELSE <<>>) \o TokOctetsL(toks[i], layout)])

\* empty-element form: <a></a> may be written <a/>
RECURSIVE Collapse(_)
Collapse(toks) == IF Len(toks) < 2 THEN toks
                  ELSE IF toks[1].k = "open" /\ toks[2].k = "close" /\ toks[1].s = toks[2].s
                       THEN <<[k |-> "empty", s |-> toks[1].s, g |-> toks[1].g]>> \o Collapse(SubSeq(toks, 3, Len(toks)))
                       ELSE <<toks[1]>> \o Collapse(Tail(toks))

XER(env, name, T, v) == Ser(XerTokens(env, name, T, v), "canon")
=============================================================================
