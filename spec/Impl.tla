-------------------------------- MODULE Impl --------------------------------
(***************************************************************************)
(* Documented facts of the asn1c C API that bound which abstract values a  *)
(* C structure can hold (they delimit the value universe; they are not     *)
(* part of the standards).  From the asn1c manual: INTEGER maps to "long"  *)
(* unless its constraints demand otherwise; non-negative ranges that need  *)
(* it map to "unsigned long"; bounds beyond 32 bits select the wide        *)
(* INTEGER_t; -fwide-types selects INTEGER_t for unconstrained types.      *)
(***************************************************************************)
EXTENDS Asn1Types

Int32Max == IOfInt(2147483647)
Int32Min == INeg(IPow2(31))
UInt32Max == IDec(IPow2(32))
InInt32(x) == ILe(Int32Min, x) /\ ILe(x, Int32Max)

\* "long" | "ulong" | "wide"
IntRepr(c) ==
  LET e == Eff(c) IN
  IF ~e.has THEN "long"
  ELSE IF e.lb.k = "V" /\ ~e.lb.v.neg /\ ILe(e.lb.v, Int32Max) /\ e.ub.k = "MAX" THEN "ulong"
  ELSE IF e.lb.k = "V" /\ ~e.lb.v.neg /\ e.ub.k = "V" /\ ILt(Int32Max, e.ub.v) /\ ILe(e.ub.v, UInt32Max) THEN "ulong"
  ELSE IF (e.lb.k = "V" /\ ~InInt32(e.lb.v)) \/ (e.ub.k = "V" /\ ~InInt32(e.ub.v)) THEN "wide"
  ELSE "long"

Representable(c, x) ==
  CASE IntRepr(c) = "long" -> FitsSigned(x, 8)
    [] IntRepr(c) = "ulong" -> FitsUnsigned(x, 8)
    [] OTHER -> TRUE
=============================================================================
