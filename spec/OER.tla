-------------------------------- MODULE OER --------------------------------
(***************************************************************************)
(* X.696: the canonical Octet Encoding Rules as a function OER(env, T, v). *)
(* Clause numbers refer to X.696 (08/2015).                                *)
(***************************************************************************)
EXTENDS UPER

\* ---- 8.6 length determinant
OerLen(n) == IF n < 128 THEN <<n>> ELSE LET o == NatOfInt(n) IN <<128 + Len(o)>> \o o
WithLen(o) == OerLen(Len(o)) \o o

\* ---- 8.2 OER-visible constraints: an extensible constraint is not visible
OerEffSize(c) == LET e == EffSize(c) IN IF e.has /\ ~e.ext THEN e
                 ELSE [has |-> FALSE, lb |-> BI(0), ub |-> BMax, ext |-> FALSE]

\* ---- 10 INTEGER
OerInt(c, x) ==
  LET e == OerEff(c) IN
  IF e.has /\ e.lb.k = "V" /\ ~e.lb.v.neg
  THEN (IF e.ub.k = "V" /\ FitsUnsigned(e.ub.v, 1) THEN PadTo(x.mag, 1)
        ELSE IF e.ub.k = "V" /\ FitsUnsigned(e.ub.v, 2) THEN PadTo(x.mag, 2)
        ELSE IF e.ub.k = "V" /\ FitsUnsigned(e.ub.v, 4) THEN PadTo(x.mag, 4)
        ELSE IF e.ub.k = "V" /\ FitsUnsigned(e.ub.v, 8) THEN PadTo(x.mag, 8)
        ELSE WithLen(UnsignedMin(x)))
  ELSE IF e.has /\ e.lb.k = "V" /\ e.ub.k = "V"
  THEN (IF FitsSigned(e.lb.v, 1) /\ FitsSigned(e.ub.v, 1) THEN TwosCFixed(x, 1)
        ELSE IF FitsSigned(e.lb.v, 2) /\ FitsSigned(e.ub.v, 2) THEN TwosCFixed(x, 2)
        ELSE IF FitsSigned(e.lb.v, 4) /\ FitsSigned(e.ub.v, 4) THEN TwosCFixed(x, 4)
        ELSE IF FitsSigned(e.lb.v, 8) /\ FitsSigned(e.ub.v, 8) THEN TwosCFixed(x, 8)
        ELSE WithLen(TwosC(x)))
  ELSE WithLen(TwosC(x))

\* ---- 11 ENUMERATED
OerEnum(v) == IF v >= 0 /\ v <= 127 THEN <<v>>
              ELSE LET o == TwosC(IOfInt(v)) IN <<128 + Len(o)>> \o o

\* ---- 8.7 tags (CHOICE index)
OerTag(tag) == IF tag.num < 63 THEN <<ClassBits(tag.cl) + tag.num>>
               ELSE <<ClassBits(tag.cl) + 63>> \o Base128(tag.num)

IsFixed(e) == e.has /\ e.ub.k = "V" /\ e.lb.v = e.ub.v

RECURSIVE OerEnc(_, _, _)
OerSeqLike(env, T, v) ==
  LET root == T.comps
      adds == T.adds
      nr == Len(root)
      enc(c, e) == Encoded(env, c, e)
      addPres == [j \in DOMAIN adds |-> enc(adds[j], v[nr + j])]
      anyAdd == \E j \in DOMAIN adds : addPres[j]
      pre == (IF T.ext THEN <<IF anyAdd THEN 1 ELSE 0>> ELSE <<>>)
             \o ConcatAll([i \in DOMAIN root |-> IF root[i].o = "M" THEN <<>>
                                                   ELSE <<IF enc(root[i], v[i]) THEN 1 ELSE 0>>])
      rootOct == ConcatAll([i \in DOMAIN root |-> IF enc(root[i], v[i]) THEN OerEnc(env, root[i].t, v[i][1]) ELSE <<>>])
      bitmap == [j \in DOMAIN adds |-> IF addPres[j] THEN 1 ELSE 0]
      addOct == WithLen(<<(8 - (Len(adds) % 8)) % 8>> \o PackRight(bitmap))
                \o ConcatAll([j \in DOMAIN adds |-> IF addPres[j] THEN WithLen(OerEnc(env, adds[j].t, v[nr + j][1])) ELSE <<>>])
  IN PackRight(pre) \o rootOct \o (IF T.ext /\ anyAdd THEN addOct ELSE <<>>)

OerEnc(env, T0, v) ==
  LET T == Resolve(env, T0) IN
  CASE T.k = "BOOLEAN" -> IF v THEN <<255>> ELSE <<0>>
    [] T.k = "NULL" -> <<>>
    [] T.k = "INTEGER" -> OerInt(T.c, v)
    [] T.k = "ENUM" -> OerEnum(v)
    [] T.k = "REAL" -> WithLen(RealContents(v))
    [] T.k = "BITS" -> IF IsFixed(OerEffSize(T.size)) THEN v.o ELSE WithLen(BitsContents(v))
    [] T.k = "OCTETS" -> IF IsFixed(OerEffSize(T.size)) THEN v ELSE WithLen(v)
    [] T.k = "STRING" ->
         IF T.st \in {"IA5", "Visible", "Printable", "Numeric", "BMP", "Universal"} /\ IsFixed(OerEffSize(T.size))
         THEN StringOctets(T.st, v) ELSE WithLen(StringOctets(T.st, v))
    [] T.k = "OID" -> WithLen(OidContents(v))
    [] T.k = "RELOID" -> WithLen(RelOidContents(v))
    [] T.k \in {"SEQUENCE", "SET"} -> OerSeqLike(env, T, v)
    [] T.k = "OPEN" -> WithLen(OerEnc(env, CompByName(T, AltOf(v)).t, AltVal(v)))           \* open type: length + encoding
    [] T.k = "CHOICE" ->
         LET c == CompByName(T, AltOf(v))
             inRoot == \E i \in DOMAIN T.comps : T.comps[i].n = AltOf(v)
             body == OerEnc(env, c.t, AltVal(v))
         \* 20.1: the outermost tag of the chosen alternative (for an untagged CHOICE
         \* alternative: the tag its value is encoded with)
         IN OerTag(ValueTag(env, c.t, AltVal(v))) \o (IF inRoot THEN body ELSE WithLen(body))
    [] T.k = "SEQOF" ->
         WithLen(UnsignedMin(IOfInt(Len(v)))) \o ConcatAll([i \in DOMAIN v |-> OerEnc(env, T.t, v[i])])
    [] T.k = "SETOF" ->   \* canonical OER: the element encodings in ascending order (as X.690 11.6)
         WithLen(UnsignedMin(IOfInt(Len(v)))) \o ConcatAll(SortOctetStrings([i \in DOMAIN v |-> OerEnc(env, T.t, v[i])]))

OER(env, T, v) == OerEnc(env, T, v)
=============================================================================
