CONSTANTS
  Mod <- TheMod
  NameCodes <- TheNames
  ByteExact = TRUE
INIT TInit
NEXT TNext
INVARIANTS RoundTrip WireCanonical
POSTCONDITION TraceAccepted
CHECK_DEADLOCK FALSE
