CONSTANTS
  Mod <- TheMod
INIT TInit
NEXT TNext
INVARIANTS RoundTrip WireCanonical
POSTCONDITION TraceAccepted
CHECK_DEADLOCK FALSE
