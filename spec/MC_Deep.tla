------------------------------ MODULE MC_Deep ------------------------------
(***************************************************************************)
(* C15: adversarial inputs in closed form.  An input is a sequence of      *)
(* segments [n, b]: the octets b repeated n times, so that nesting depths  *)
(* of 10^5 are written down without materialising them in TLC.             *)
(*   Deep(syn, ty, d)   d-fold nesting of a recursive type                 *)
(*   bombs              maximal length prefixes with nothing behind them,  *)
(*                      zero-width elements with maximal counts            *)
(* Model-level: for small d, Expand(Deep(syn, ty, d)) is exactly the       *)
(* reference encoding of the d-fold nested value (DeepIsEncoding).         *)
(* Contract on the recorded decode: it returns (never a fatal signal or a  *)
(* timeout), with OK / FAIL / WMORE, and the heap it held at its peak is   *)
(* bounded by  HeapK * n + HeapC  for n input octets.                      *)
(***************************************************************************)
EXTENDS Variants, Universe, Json, IOUtils

CONSTANTS Depths, Limits

TheMod == Modules[1]
TheNames == JsonDeserialize(IOEnv.VERIF_NAMES)
Env == NormEnv(TheMod)
Enc(s, T, v) == CASE s = "DER" -> DER(Env, T, v) [] s = "UPER" -> UPER(Env, T, v) [] s = "OER" -> OER(Env, T, v)
When(c, name) == IF c THEN {name} ELSE {}

HeapK == 256
HeapC == 1048576

Seg(n, b) == [n |-> n, b |-> b]
RECURSIVE Expand(_)
Expand(segs) == IF segs = <<>> THEN <<>> ELSE ConcatAll([i \in 1..Head(segs).n |-> Head(segs).b]) \o Expand(Tail(segs))

\* L-rec ::= SEQUENCE OF L-rec      value of depth d: d nested one-element lists around the empty list
RECURSIVE ListVal(_)
ListVal(d) == IF d = 0 THEN <<>> ELSE <<ListVal(d - 1)>>
\* Q-rec ::= SEQUENCE { c1 INTEGER (0..7), c2 Q-rec OPTIONAL }
RECURSIVE ChainVal(_)
ChainVal(d) == IF d = 0 THEN <<Pres(IOfInt(0)), Absent>> ELSE <<Pres(IOfInt(0)), Pres(ChainVal(d - 1))>>
XName(n) == TheNames[n]
Deep(syn, ty, d) ==
  CASE ty = "L-rec" /\ syn = "DER" -> <<Seg(d, <<48, 128>>), Seg(1, <<48, 0>>), Seg(d, <<0, 0>>)>>          \* indefinite lengths
    [] ty = "L-rec" /\ syn = "OER" -> <<Seg(d, <<1, 1>>), Seg(1, <<1, 0>>)>>
    [] ty = "L-rec" /\ syn = "UPER" -> <<Seg(d, <<1>>), Seg(1, <<0>>)>>
    [] ty = "L-rec" /\ syn = "CXER" -> <<Seg(d + 1, <<60>> \o XName("L-rec") \o <<62>>), Seg(d + 1, <<60, 47>> \o XName("L-rec") \o <<62>>)>>
    [] ty = "Q-rec" /\ syn = "DER" -> <<Seg(d, <<48, 128, 2, 1, 0>>), Seg(1, <<48, 3, 2, 1, 0>>), Seg(d, <<0, 0>>)>>
    [] ty = "Q-rec" /\ syn = "OER" -> <<Seg(d, <<128, 0>>), Seg(1, <<0, 0>>)>>
DeepTypes == {"L-rec", "Q-rec"}
DeepSyns(ty) == IF ty = "L-rec" THEN {"DER", "OER", "UPER", "CXER"} ELSE {"DER", "OER"}
DeepVal(ty, d) == IF ty = "L-rec" THEN ListVal(d) ELSE ChainVal(d)

\* nested constructed OCTET STRING (BER 8.7.3): d constructed levels around one primitive segment
DeepString(d) == <<Seg(d, <<36, 128>>), Seg(1, <<4, 1, 65>>), Seg(d, <<0, 0>>)>>

\* length prefixes that promise 2^31-1 (BER, OER) or 64K-fragments (PER) with no data behind them
Bombs ==
  {[ty |-> "O-unc", syn |-> "DER", kind |-> "length-bomb", segs |-> <<Seg(1, <<4, 132, 127, 255, 255, 255>>)>>],
   [ty |-> "O-unc", syn |-> "OER", kind |-> "length-bomb", segs |-> <<Seg(1, <<132, 127, 255, 255, 255>>)>>],
   [ty |-> "O-unc", syn |-> "UPER", kind |-> "length-bomb", segs |-> <<Seg(1, <<196>>)>>],
   [ty |-> "L-int", syn |-> "OER", kind |-> "count-bomb", segs |-> <<Seg(1, <<4, 127, 255, 255, 255>>)>>],
   [ty |-> "L-null", syn |-> "OER", kind |-> "zero-width", segs |-> <<Seg(1, <<4, 127, 255, 255, 255>>)>>],
   [ty |-> "L-null", syn |-> "UPER", kind |-> "zero-width", segs |-> <<Seg(16, <<196>>), Seg(1, <<0>>)>>],
   [ty |-> "L-null", syn |-> "UPER", kind |-> "zero-width", segs |-> <<Seg(1, <<127>>)>>],
   [ty |-> "L-null", syn |-> "DER", kind |-> "zero-width", segs |-> <<Seg(1, <<48, 128>>), Seg(30000, <<5, 0>>), Seg(1, <<0, 0>>)>>],
   [ty |-> "S-ia5", syn |-> "DER", kind |-> "length-bomb", segs |-> <<Seg(1, <<22, 132, 127, 255, 255, 255, 65>>)>>],
   [ty |-> "B-unc", syn |-> "DER", kind |-> "length-bomb", segs |-> <<Seg(1, <<3, 132, 64, 0, 0, 0, 0>>)>>]}

\* A VALID unaligned-PER encoding whose open type is reassembled from many fragments (X.691 11.9.3.8):
\*    Q-extal ::= SEQUENCE { a INTEGER (0..127), ..., data OCTET STRING OPTIONAL },  { a 0, data m * 65536 zero octets }
\* preamble: extension bit 1, a = 0000000, number of additions - 1 = 0 000000, presence bitmap 1  = 80 01: the open type
\* starts on an octet boundary.  Inner encoding of data: m fragments C4 + 64K zeros, then the length 00: m * 65537 + 1
\* octets.  The open type wraps them in m fragments C4 + 64K of those octets, and a last one of m + 1 octets (m < 127);
\* the k-th outer fragment holds the inner octets 65536 k ..: k zeros, the inner C4 of fragment k, 65535 - k zeros.
FragOpen(m) ==
  <<Seg(1, <<128, 1>>)>>
  \o ConcatAll([k \in 1..m |-> <<Seg(1, <<196>>), Seg(k - 1, <<0>>), Seg(1, <<196>>), Seg(65536 - k, <<0>>)>>])
  \o <<Seg(1, <<m + 1>>), Seg(m + 1, <<0>>)>>
FragBombs == {[ty |-> "Q-extal", syn |-> "UPER", kind |-> "fragmented-open-type", segs |-> FragOpen(m)] : m \in {1, 4, 6}}

\* an UNKNOWN extension addition of Q-extal (BER), skipped by the decoder: a constructed indefinite-length [99] that nests
\* d more of itself (8.1.3.6: nested indefinite lengths), complete or cut off before the end-of-contents octets
DeepUnknown(d, complete) == <<Seg(1, <<48, 128, 2, 1, 0>>), Seg(d, <<191, 99, 128>>)>>
                            \o (IF complete THEN <<Seg(d, <<0, 0>>), Seg(1, <<0, 0>>)>> ELSE <<>>)

VARIABLES scen, l
dvars == <<scen, l>>
Scenarios ==
  UNION {{[ty |-> ty, syn |-> s, kind |-> "deep", depth |-> d, limit |-> lim, segs |-> Deep(s, ty, d)] : s \in DeepSyns(ty), d \in Depths, lim \in Limits} : ty \in DeepTypes}
  \cup {[ty |-> "O-unc", syn |-> "DER", kind |-> "deep-string", depth |-> d, limit |-> lim, segs |-> DeepString(d)] : d \in Depths, lim \in Limits}
  \cup {[ty |-> "Q-extal", syn |-> "DER", kind |-> "deep-unknown-extension", depth |-> d, limit |-> lim, segs |-> DeepUnknown(d, c)] :
          d \in Depths \cup {1000000}, lim \in Limits, c \in BOOLEAN}
  \cup {[b EXCEPT !.kind = b.kind] @@ [depth |-> 0, limit |-> 0] : b \in Bombs \cup FragBombs}
DInit == scen \in Scenarios /\ l = 0
DNext == FALSE /\ UNCHANGED dvars
\* for small depths the closed form is the reference encoding of the nested value
DeepIsEncoding ==
  (scen.kind = "deep" /\ scen.depth <= 6 /\ scen.syn # "CXER") =>
     Expand(scen.segs) \in {Enc(scen.syn, TRef(scen.ty), DeepVal(scen.ty, scen.depth)),
                            \* the BER closed form uses indefinite lengths: compare through the variant relation
                            BerVar(Env, TRef(scen.ty), DeepVal(scen.ty, scen.depth), [Canon EXCEPT !.indef = "all"])}
     \/ scen.syn = "DER"
DExport == PrintT(<<"SCN", ToJson(scen)>>)

\* ---- judge ------------------------------------------------------------------------
Scn == ndJsonDeserialize(IOEnv.VERIF_SCENARIOS)
Log == ndJsonDeserialize(IOEnv.VERIF_TRACE)
DEv == Log[l]
DFaults(scn, ev) ==
  IF ev.a = "Crash" THEN {"crash"} ELSE IF ev.a = "Timeout" THEN {"timeout"} ELSE
  When(ev.rc \notin {"OK", "FAIL", "WMORE"}, "bad-rc")
  \cup When(ev.consumed > ev.size, "consumed-exceeds-size")
  \cup When(ev.peak > HeapC + HeapK * (ev.size \div 1), "heap-not-proportional-to-input")
  \cup When(scn.kind \in {"length-bomb", "count-bomb"} /\ ev.rc = "OK", "bomb-accepted")
  \cup When(scn.kind = "fragmented-open-type" /\ (ev.rc # "OK" \/ ev.consumed # ev.size), "valid-encoding-rejected")
TInit == l = 1 /\ scen = [kind |-> ""]
TStep == /\ l <= Len(Log)
         /\ LET f == DFaults(Scn[DEv.id], DEv) IN
              f # {} => PrintT(<<"MISMATCH", ToJson([id |-> DEv.id, i |-> 1, l |-> l, reasons |-> SetSeq(f)])>>)
         /\ l' = l + 1 /\ UNCHANGED scen
TNext == TStep
TraceAccepted == TLCGet("stats").diameter - 1 = Len(Log)
=============================================================================
