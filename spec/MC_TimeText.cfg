
