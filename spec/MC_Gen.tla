------------------------------- MODULE MC_Gen -------------------------------
(***************************************************************************)
(* Generator run: TLC enumerates every session (type of the module x value *)
(* of the type x plan) of the Codec state machine, checks the model-level  *)
(* invariants in every state, and exports each explored behaviour as one   *)
(* JSON scenario line (consumed by the glue and replayed on the real code).*)
(***************************************************************************)
EXTENDS Codec, Universe, Json, IOUtils

CONSTANTS ModIdx, PlanSet, Depth, MaxCompose, XerVals, ValCap, MaxFail, LeafCap, MutDense
TheNames == JsonDeserialize(IOEnv.VERIF_NAMES)
TheMod == Modules[ModIdx]

TypeNames == {TheMod.defs[i].n : i \in DOMAIN TheMod.defs}

PlansEnc == {<<OpBuild(1), OpEncode(1, s)>> : s \in Syntaxes}
PlansRT == {<<OpBuild(1), OpEncode(1, "DER"), OpEncode(1, s), OpDecode(2, s), OpCompare(1, 2), OpEncode(2, "DER")>> : s \in Syntaxes}
\* transcoding chains: every ordered pair of syntaxes
PlansChain == {<<OpBuild(1), OpEncode(1, "DER"), OpEncode(1, s1), OpDecode(2, s1), OpEncode(2, s2), OpDecode(3, s2),
                 OpCompare(1, 3), OpEncode(3, "DER")>> : s1 \in Syntaxes, s2 \in Syntaxes}
Plans == CASE PlanSet = "enc" -> PlansEnc [] PlanSet = "rt" -> PlansRT [] PlanSet = "chain" -> PlansChain [] OTHER -> {}
\* C05: every 2-chunk split of the reference encoding, for the restartable binary decoders
Splits(syn, b) == {<<OpStartDecode(1, syn, b), OpDecodeCall(c), OpDecodeCall(Len(b))>> : c \in 0..(Len(b) - 1)}
\* the same for a non-canonical BER form of the value (the style is carried for the reports)
SplitsS(syn, b, style) == {<<[OpStartDecode(1, syn, b) EXCEPT !.a = "StartDecode"] @@ [style |-> style], OpDecodeCall(c), OpDecodeCall(Len(b))>> : c \in 0..(Len(b) - 1)}
BerIndef(n, v) == BerVar(Env, TRef(n), v, BerStyles[3])        \* every constructed encoding in the indefinite form
\* every composition (all chunkings) of a short encoding, and 1-octet feeding of any
RECURSIVE Compositions(_, _)
Compositions(from, n) == IF from = n THEN {<<>>}
                         ELSE UNION {{<<c>> \o rest : rest \in Compositions(c, n)} : c \in (from + 1)..n}
Chunked(syn, b, cuts) == <<OpStartDecode(1, syn, b)>> \o [i \in DOMAIN cuts |-> OpDecodeCall(cuts[i])]
AllChunkings(syn, b) == IF Len(b) = 0 THEN {} ELSE {Chunked(syn, b, cs) : cs \in Compositions(0, Len(b))}
ByteWise(syn, b) == IF Len(b) = 0 THEN {} ELSE {Chunked(syn, b, [i \in 1..Len(b) |-> i])}
\* the streams a restartable decoder can be given for value v of type n: <<syntax, octets>>;
\* BER and OER from the reference encoders, XER text in the canonical and an indented layout
\* XER text is long; the number of values per type given as XER streams is bounded by XerVals
XerSubset(n) == Take({v \in Values(RawEnv, TRef(n), Depth) : XerWritable(Env, TRef(n), v)}, XerVals)
Streams(n, v) ==
  {<<"DER", Enc("DER", TRef(n), v)>>, <<"OER", Enc("OER", TRef(n), v)>>}
  \cup (IF v \in XerSubset(n)
        THEN {<<"CXER", Ser(XerTokens(Env, n, TRef(n), v), "canon")>>, <<"BXER", Ser(XerTokens(Env, n, TRef(n), v), "lf")>>}
        ELSE {})
\* C03: alternative valid encodings of v (Variants.tla); each is decoded one-shot, then the
\* structure is re-encoded in DER (which must give the canonical octets)
VarPlan(syn, bytes, style) == <<OpDecodeLit(1, syn, bytes, style), OpEncode(1, "DER")>>
BerVariants(n, v) ==
  LET der == Enc("DER", TRef(n), v)
  IN {VarPlan("DER", BerVar(Env, TRef(n), v, BerStyles[i]), StyleName(i)) : i \in DOMAIN BerStyles}
     \ {VarPlan("DER", der, StyleName(i)) : i \in DOMAIN BerStyles}
PerOerVariants(n, v) ==
  (IF HasTopDefault(Env, TRef(n))
   THEN {VarPlan("UPER", UPER(Env, NoDefaults(Env, TRef(n)), WithDefaults(Env, TRef(n), v)), "defaults-present"),
         VarPlan("OER", OER(Env, NoDefaults(Env, TRef(n)), WithDefaults(Env, TRef(n), v)), "defaults-present")}
   ELSE {})
  \cup
  (IF IsExtSeq(Env, TRef(n))
   THEN {VarPlan("UPER", UPER(Env, Newer(Env, TRef(n)), NewerVal(v, x)), "unknown-extension") : x \in {<<7>>, <<1, 2, 3>>, Zeros(130)}}
        \cup {VarPlan("OER", OER(Env, Newer(Env, TRef(n)), NewerVal(v, x)), "unknown-extension") : x \in {<<7>>, <<1, 2, 3>>, Zeros(130)}}
        \cup {VarPlan("UPER", UPER(Env, NewerN(Env, TRef(n), k), NewerValN(v, <<7>>, k)), "many-unknown-extensions") : k \in {63, 64, 65, 130}}
        \cup {VarPlan("OER", OER(Env, NewerN(Env, TRef(n), k), NewerValN(v, <<7>>, k)), "many-unknown-extensions") : k \in {65}}
   ELSE {})
XerVariants(n, v) ==
  IF v \notin XerSubset(n) THEN {}
  ELSE LET toks == XerTokens(Env, n, TRef(n), v)
       IN {VarPlan("BXER", Ser(toks, "lf"), "lf"), VarPlan("BXER", Ser(toks, "crlf-tab"), "crlf-tab"),
           VarPlan("BXER", Ser(toks, "comment"), "comment"), VarPlan("CXER", Ser(toks, "canon"), "canon"),
           VarPlan("BXER", Ser(Collapse(toks), "lf"), "empty-elements")}
          \cup (IF NeedsRef(toks) THEN {VarPlan("BXER", Ser(toks, "numeric"), "numeric-refs")} ELSE {})
          \cup (IF HasTopDefault(Env, TRef(n))
                THEN {VarPlan("BXER", Ser(XerTokens(Env, n, NoDefaults(Env, TRef(n)), WithDefaults(Env, TRef(n), v)), "lf"), "defaults-present")}
                ELSE {})
\* C06: the same abstract value in another in-memory representation must give the same canonical
\* octets (and compare equal); also a structure obtained by decoding a non-canonical BER form
CanonSyntaxes == {"DER", "UPER", "OER", "CXER"}
Reps == {"perm", "pad", "defaults", "noise", "true"}
RepPlans(n, v) ==
  {<<OpBuild(1), OpEncode(1, s), OpBuildRep(2, r), OpCompare(1, 2), OpEncode(2, s)>> :
      s \in CanonSyntaxes, r \in {x \in Reps : RepApplies(TRef(n), v, x)}}
  \cup {<<OpBuild(1), OpEncode(1, s), OpDecodeLit(2, "DER", BerVar(Env, TRef(n), v, BerStyles[i]), StyleName(i)), OpCompare(1, 2), OpEncode(2, s)>> :
           s \in (IF TimeTextCanonical(RawEnv, TRef(n), v) THEN CanonSyntaxes ELSE {"DER", "CXER"}), i \in {16}}
  \* a time value held in its canonical text and in another text of the same instant: DER and CANONICAL-XER do not
  \* depend on the text (BASIC-PER / OER carry the text as it is)
  \cup (IF ~TimeTextCanonical(RawEnv, TRef(n), v)
        THEN {<<OpBuild(1), OpEncode(1, s), OpBuildVal(2, CanonTimes(RawEnv, TRef(n), v)), OpCompare(1, 2), OpEncode(2, s)>> : s \in {"DER", "CXER"}}
        ELSE {})
\* ---- C07: encoder sinks ------------------------------------------------------
Rels == <<"zero", "one", "half", "minus1", "exact", "plus1">>
SinkPlans(n, v) ==
  {<<OpBuild(1), OpEncode(1, s)>> \o [i \in DOMAIN Rels |-> OpEncodeBuf(1, s, Rels[i])]
     \o [k \in 1..(MaxFail + 1) |-> OpEncodeCb(1, s, k - 1)] \o <<OpEncodeCbSweep(1, s, "once"), OpEncodeCbSweep(1, s, "from"), OpFree(1)>> : s \in Syntaxes}
  \cup {<<OpBuildVal(1, x), OpEncode(1, s), OpEncodeCb(1, s, 0), OpEncodeCb(1, s, 1), OpEncodeBuf(1, s, "plus1"), OpFree(1)>> :
          s \in Syntaxes, x \in Take(Corruptions(RawEnv, TRef(n), v), 2)}
  \cup (IF v = CHOOSE w \in Values(RawEnv, TRef(n), Depth) : TRUE
        THEN {<<OpBuildZero(1), OpEncode(1, s), OpEncodeCb(1, s, 0), OpEncodeBuf(1, s, "plus1"), OpFree(1)>> : s \in Syntaxes}
        ELSE {})

\* ---- C04 / C14: arbitrary octets, lifecycle ----------------------------------
\* streams for one-shot decoders: the reference encodings incl. UPER, XER text when writable
AllStreams(n, v) ==
  {<<"DER", Enc("DER", TRef(n), v)>>, <<"OER", Enc("OER", TRef(n), v)>>, <<"UPER", Enc("UPER", TRef(n), v)>>,
   <<"DER", BerIndef(n, v)>>, <<"DER", BerVar(Env, TRef(n), v, [Canon EXCEPT !.real = "long-mantissa"])>>}
  \cup (IF XerWritable(Env, TRef(n), v) THEN {<<"CXER", Ser(XerTokens(Env, n, TRef(n), v), "canon")>>} ELSE {})
Byte(x) == x % 256
Interesting(x) == (IF MutDense THEN {0, 1, 127, 128, 129, 255, Byte(x + 1), Byte(x + 255), Byte(x + 128)}
                   ELSE {0, 255, Byte(x + 1), Byte(x + 128)}) \ {x}
Positions(b) == IF Len(b) <= 8 THEN DOMAIN b ELSE (1..5) \cup ((Len(b) - 2)..Len(b))
TruncPoints(b) == IF Len(b) <= 24 \/ MutDense THEN 0..(Len(b) - 1) ELSE (0..8) \cup {Len(b) \div 2} \cup ((Len(b) - 6)..(Len(b) - 1))
Mutations(b) ==
  {<<"truncate", SubSeq(b, 1, k)>> : k \in TruncPoints(b)}
  \cup UNION {{<<"setbyte", [b EXCEPT ![i] = x]>> : x \in Interesting(b[i])} : i \in Positions(b)}
  \cup (IF Len(b) >= 2 THEN {<<"dup-tail", b \o SubSeq(b, Len(b) \div 2 + 1, Len(b))>>, <<"drop-byte", SubSeq(b, 1, Len(b) \div 2) \o SubSeq(b, Len(b) \div 2 + 2, Len(b))>>} ELSE {})
  \cup {<<"append-ff", b \o <<255, 255, 255, 255>>>>}
\* two histories per mutant: whatever the decoder left behind is printed, validated and FREED (the ledger is checked
\* also when the decoder failed); and what it accepted is re-encoded, decoded again and compared
MutPlans(n, v) ==
  UNION {{<<OpDecodeAny(1, st[1], m[2], m[1]), OpPrint(1), OpCheck(1), OpFree(1)>> : m \in Mutations(st[2])} : st \in AllStreams(n, v)}
  \cup UNION {{<<OpDecodeAny(1, st[1], m[2], m[1]), OpEncode(1, "DER"), OpDecode(2, "DER"), OpCompare(1, 2),
                 OpFree(1), OpFree(2)>> : m \in Mutations(st[2])} : st \in AllStreams(n, v)}
CutSample(b) == IF Len(b) <= 48 THEN 1..(Len(b) - 1)
                ELSE {c \in {1, 2, Len(b) \div 4, Len(b) \div 3, Len(b) \div 2, (2 * Len(b)) \div 3, (3 * Len(b)) \div 4, Len(b) - 2, Len(b) - 1} : c >= 1 /\ c < Len(b)}
LifePlans(n, v) ==
  UNION {
    (IF st[1] # "UPER" THEN {<<OpStartDecode(1, st[1], st[2]), OpDecodeCall(c), OpFree(1)>> : c \in CutSample(st[2])} ELSE {})
    \cup {<<OpDecodeLit(1, st[1], st[2], "valid"), OpReset(1), OpDecodeInto(1, st[1], st[2]), OpEncode(1, "DER"), OpFree(1)>>}
    \cup {<<OpArm(k), OpDecodeLit(1, st[1], st[2], "armed"), OpFree(1)>> : k \in 1..MaxFail}
    \cup {<<OpBuild(1), OpArm(k), OpEncode(1, st[1]), OpFree(1)>> : k \in 1..3}
    \cup {<<OpBuild(1), OpAllocSweepEnc(1, st[1]), OpFree(1)>>, <<OpAllocSweepDec(st[1], st[2])>>, <<OpTruncSweep(st[1], st[2])>>}
    \* valid encodings of values the C structure cannot hold: refused (or accepted) cleanly, then freed
    \cup {<<OpDecodeAny(1, st[1], IF st[1] = "CXER" THEN Ser(XerTokens(Env, n, TRef(n), x), "canon") ELSE Enc(st[1], TRef(n), x),
                         "unrepresentable"), OpPrint(1), OpFree(1)>> : x \in Overflows(RawEnv, TRef(n), v)}
    \cup {<<OpDecodeAny(1, st[1], m[2], m[1]), OpFree(1)>> : m \in {x \in Mutations(st[2]) : x[1] \in {"truncate", "drop-byte"}}}
    \cup {<<OpDecodeAny(1, st[1], m[2], m[1]), OpReset(1), OpDecodeInto(1, st[1], st[2]), OpFree(1)>> :
            m \in {x \in Mutations(st[2]) : x[1] = "dup-tail"}}
    : st \in AllStreams(n, v)}

\* C08: the value itself (valid by construction) and every single-constraint corruption of it
CheckPlans(n, v) ==
  IF ~Valid(RawEnv, TRef(n), v) THEN {}      \* out-of-root values of extensible constraints are not C08's
  ELSE {<<OpBuild(1), OpCheck(1)>>}
       \cup {<<OpBuildVal(1, x), OpCheck(1)>> : x \in Corruptions(RawEnv, TRef(n), v)}
\* C18: encodings whose identifier has no row, or another row than the open type value; then free
IocStreams(n, x) ==
  {<<"DER", Enc("DER", TRef(n), x)>>, <<"UPER", Enc("UPER", TRef(n), x)>>, <<"OER", Enc("OER", TRef(n), x)>>,
   <<"DER", BerVar(Env, TRef(n), x, BerStyles[2])>>}
  \cup (IF XerWritable(Env, TRef(n), x) THEN {<<"CXER", Ser(XerTokens(Env, n, TRef(n), x), "canon")>>, <<"BXER", Ser(XerTokens(Env, n, TRef(n), x), "lf")>>} ELSE {})
IocPlans(n, v) ==
  UNION {{<<OpDecodeAny(1, st[1], st[2], c[1]), OpPrint(1), OpFree(1)>> : st \in IocStreams(n, c[2])} : c \in IocCorruptions(RawEnv, TRef(n), v)}
  \cup UNION {{<<OpDecodeAny(1, st[1], st[2], c[1]), OpReset(1), OpDecodeInto(1, "DER", Enc("DER", TRef(n), v)), OpEncode(1, "DER"), OpFree(1)>> :
                 st \in IocStreams(n, c[2])} : c \in Take(IocCorruptions(RawEnv, TRef(n), v), 2)}
\* big values (fragmented lengths): the reference encoders are not evaluated (TLC needs minutes per 64K-element
\* sequence); the implementation's own encoding is the wire, decoding it must give the value back
BigPlans == {<<OpBuild(1), OpEncode(1, s), OpTruncSweepW(s), OpDecode(2, s), OpCompare(1, 2), OpFree(1), OpFree(2)>> : s \in {"DER", "UPER", "OER"}}
\* C19: the script a thread runs on one of its structures
ThreadPlans == {<<OpBuild(1), OpEncode(1, s), OpDecode(2, s), OpCompare(1, 2), OpCheck(1), OpPrint(2), OpFree(1), OpFree(2)>> : s \in Syntaxes}
PlansFor(n, v) ==
  CASE PlanSet = "check" -> CheckPlans(n, v)
    [] PlanSet = "thread" -> ThreadPlans
    [] PlanSet = "ioc" -> IocPlans(n, v)
    [] PlanSet = "big" -> BigPlans
    [] PlanSet = "sinks" -> SinkPlans(n, v)
    [] PlanSet = "mutations" -> MutPlans(n, v)
    [] PlanSet = "life" -> LifePlans(n, v)
    [] PlanSet = "reps" -> RepPlans(n, v)
    [] PlanSet = "variants" -> BerVariants(n, v) \cup PerOerVariants(n, v) \cup XerVariants(n, v)
    [] PlanSet = "split" -> UNION {Splits(st[1], st[2]) : st \in Streams(n, v)}
                            \cup (IF BerIndef(n, v) # Enc("DER", TRef(n), v) THEN SplitsS("DER", BerIndef(n, v), "ber3") ELSE {})
    [] PlanSet = "chunks" -> UNION {(IF Len(st[2]) <= MaxCompose THEN AllChunkings(st[1], st[2]) ELSE {})
                                    \cup ByteWise(st[1], st[2]) : st \in Streams(n, v)}
    [] OTHER -> Plans

\* ValCap > 0 bounds the number of values per type (the heavier plan sets)
\* (leaf types keep all their boundary values)
ValuesOf(n) == IF TheMod.name = "VB" THEN BigValues(n) ELSE
               \* (the few time values differ in FORM, local / offset / accuracy / fraction: they are never capped)
               LET RT == Resolve(RawEnv, TRef(n))
                   cap == IF RT.k \in {"SEQUENCE", "SET", "SEQOF", "SETOF"} THEN ValCap
                          ELSE IF RT.k = "STRING" /\ RT.st \in {"UTCTime", "GeneralizedTime"} THEN 0 ELSE LeafCap
               IN IF cap = 0 THEN Values(RawEnv, TRef(n), Depth) ELSE Spread(Values(RawEnv, TRef(n), Depth), cap)
Init == \E n \in TypeNames : \E v \in ValuesOf(n) : \E p \in PlansFor(n, v) :
          InitSession([ty |-> n, val |-> v, plan |-> p])
Next == Step(GenObs)
Spec == Init /\ [][Next]_vars

Done == pc = Len(sc.plan) + 1
Export == Done => PrintT(<<"SCN", ToJson([ty |-> sc.ty, val |-> sc.val, plan |-> sc.plan,
                                          exp |-> [s \in {"DER", "UPER", "OER"} |-> IF wire[s] # NoWire /\ TheMod.name # "VB" THEN Enc(s, TypeOf(sc), sc.val) ELSE <<>>]])>>)
ExportModule == PrintT(<<"MOD", ToJson(TheMod)>>)
ASSUME ExportModule
=============================================================================
