------------------------------- MODULE MC_Gen -------------------------------
(***************************************************************************)
(* Generator run: TLC enumerates every session (type of the module x value *)
(* of the type x plan) of the Codec state machine, checks the model-level  *)
(* invariants in every state, and exports each explored behaviour as one   *)
(* JSON scenario line (consumed by the glue and replayed on the real code).*)
(***************************************************************************)
EXTENDS Codec, Universe, Json, IOUtils

CONSTANTS ModIdx, PlanSet, Depth
TheMod == Modules[ModIdx]

TypeNames == {TheMod.defs[i].n : i \in DOMAIN TheMod.defs}

PlansEnc == {<<OpBuild(1), OpEncode(1, "DER"), OpEncode(1, "UPER"), OpEncode(1, "OER"), OpEncode(1, "CXER"), OpEncode(1, "BXER")>>}
PlansRT == {<<OpBuild(1), OpEncode(1, "DER"), OpEncode(1, s), OpDecode(2, s), OpCompare(1, 2), OpEncode(2, "DER")>> : s \in Syntaxes}
\* transcoding chains: every ordered pair of syntaxes
PlansChain == {<<OpBuild(1), OpEncode(1, "DER"), OpEncode(1, s1), OpDecode(2, s1), OpEncode(2, s2), OpDecode(3, s2),
                 OpCompare(1, 3), OpEncode(3, "DER")>> : s1 \in Syntaxes, s2 \in Syntaxes}
Plans == CASE PlanSet = "enc" -> PlansEnc [] PlanSet = "rt" -> PlansRT [] PlanSet = "chain" -> PlansChain

Init == \E n \in TypeNames : \E v \in Values(RawEnv, TRef(n), Depth) : \E p \in Plans :
          InitSession([ty |-> n, val |-> v, plan |-> p])
Next == Step(OpaqueWire)
Spec == Init /\ [][Next]_vars

Done == pc = Len(sc.plan) + 1
Export == Done => PrintT(<<"SCN", ToJson([ty |-> sc.ty, val |-> sc.val, plan |-> sc.plan,
                                          exp |-> [s \in {"DER", "UPER", "OER"} |-> IF wire[s] # NoWire THEN Enc(s, TypeOf(sc), sc.val) ELSE <<>>]])>>)
ExportModule == PrintT(<<"MOD", ToJson(TheMod)>>)
ASSUME ExportModule
=============================================================================
