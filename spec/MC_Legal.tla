------------------------------ MODULE MC_Legal ------------------------------
(***************************************************************************)
(* C11: the module generator as a state machine (ModuleGen of DESIGN.md):  *)
(* starting from an empty definition, components are added one by one,     *)
(* then a tagging environment is chosen, optionally one fault of the       *)
(* catalogue is injected, and the module is finished.  TLC's breadth-first *)
(* search enumerates every module of that size.  Legal (Asn1Tags.tla) is   *)
(* an independent implementation of the X.680 distinctness rules; the      *)
(* judge accepts an asn1c run iff   exit = 0  <=>  Legal(module),          *)
(* a rejection comes with a diagnostic and without generated files.        *)
(***************************************************************************)
EXTENDS Universe, Json, IOUtils

CONSTANTS MaxComps, Rich

VARIABLES kind, comps, tagging, fault, phase, l, extAt
lvars == <<kind, comps, tagging, fault, phase, l, extAt>>

ChoiceIB == TRef("CIB")           \* CHOICE { INTEGER, BOOLEAN }  (untagged: transparent)
ChoiceTT == TRef("CTT")           \* CHOICE { [0] INTEGER, [1] BOOLEAN }
Palette ==
  {Int0, TBool, TTag("C", 0, "D", Int0), TTag("C", 0, "D", TBool), ChoiceIB, TRef("RI")}
  \cup (IF Rich THEN {TTag("C", 1, "D", TBool), ChoiceTT, TTag("A", 1, "D", Int0), TTag("C", 1, "I", TNull),
                      TTag("C", 0, "E", ChoiceIB), TStr("IA5", CNone, <<>>)} ELSE {})
Flags == {"M", "O"}
\* import-*: the last component refers to a type Ext imported from a second module LX: properly ("import-ok": LX
\* defines Ext and exports it, or has no EXPORTS clause), or not (LX is not given; LX does not define Ext; LX has an
\* EXPORTS clause that does not list Ext)
ImportFaults == {"import-ok", "import-ok-exports-all", "import-no-module", "import-no-symbol", "import-not-exported"}
\* enumerations of 120 items (values 0..119 in order) in which item k repeats the VALUE (or the NAME) of item j;
\* j = 0: no repetition.  The positions straddle the sizes at which a checker's table of seen values grows (50, 100).
BigEnums == << [j |-> 0, k |-> 0, what |-> "v"], [j |-> 1, k |-> 120, what |-> "v"], [j |-> 50, k |-> 120, what |-> "v"], [j |-> 51, k |-> 120, what |-> "v"],
              [j |-> 51, k |-> 52, what |-> "v"], [j |-> 52, k |-> 60, what |-> "v"], [j |-> 100, k |-> 120, what |-> "v"], [j |-> 101, k |-> 120, what |-> "v"],
              [j |-> 102, k |-> 103, what |-> "v"], [j |-> 102, k |-> 120, what |-> "v"], [j |-> 119, k |-> 120, what |-> "v"],
              [j |-> 51, k |-> 120, what |-> "n"], [j |-> 102, k |-> 119, what |-> "n"] >>
BigName(i) == "big-enum-" \o ToString(i)
BigFaults == {BigName(i) : i \in DOMAIN BigEnums}
BigEnumDef(b) == TEnum([i \in 1..120 |-> EItem(IF b.what = "n" /\ i = b.k THEN "e" \o ToString(b.j) ELSE "e" \o ToString(i),
                                                IF b.what = "v" /\ i = b.k THEN b.j - 1 ELSE i - 1)], FALSE, <<>>)
Faults == {"none", "dup-ident", "dup-ident-last", "dup-enum-name", "dup-enum-value", "dup-enum-name-ext", "dup-enum-value-ext", "dangling-ref"}
          \cup ImportFaults

\* extAt = k > 0: an extension marker follows the k-th component (SEQUENCE only; the later components are extension additions)
Init == kind \in {"CHOICE", "SET", "SEQUENCE"} /\ comps = <<>> /\ tagging = "" /\ fault = "none" /\ phase = "build" /\ l = 0 /\ extAt = 0
\* DEFAULT is offered for the SEQUENCE components whose type has an obvious default value
DefaultOf(t) == LET r == IF t.k = "TAGGED" THEN t.t ELSE t IN
                CASE r.k = "INTEGER" -> <<IOfInt(0)>> [] r.k = "BOOLEAN" -> <<TRUE>> [] OTHER -> <<>>
AddComponent == /\ phase = "build" /\ Len(comps) < MaxComps
                /\ \E t \in Palette :
                     \/ \E o \in (IF kind = "CHOICE" THEN {"M"} ELSE Flags) :
                          comps' = Append(comps, Comp("c" \o ToString(Len(comps) + 1), t, o))
                     \/ /\ kind = "SEQUENCE" /\ DefaultOf(t) # <<>>
                        /\ comps' = Append(comps, CompD("c" \o ToString(Len(comps) + 1), t, DefaultOf(t)[1]))
                /\ UNCHANGED <<kind, tagging, fault, phase, l, extAt>>
SetTagging == /\ phase = "build" /\ Len(comps) >= 2
              /\ tagging' \in {"EXPLICIT", "IMPLICIT", "AUTOMATIC"} /\ phase' = "tagged"
              /\ extAt' \in (IF kind = "SEQUENCE" THEN {0, 1} ELSE {0})
              /\ UNCHANGED <<kind, comps, fault, l>>
\* (quick tier: the fault catalogue is applied to the two-component modules only)
InjectFault == /\ phase = "tagged"
               /\ fault' \in (IF Rich \/ Len(comps) = 2 THEN Faults ELSE IF extAt # 0 THEN {"none", "dup-ident-last"} ELSE {"none"})
                              \cup (IF kind = "SEQUENCE" /\ Len(comps) = 2 /\ extAt = 0 /\ comps[1].t = comps[2].t THEN BigFaults ELSE {})
               /\ phase' = "done"
               /\ UNCHANGED <<kind, comps, tagging, l, extAt>>
Next == AddComponent \/ SetTagging \/ InjectFault

\* the module a finished state denotes
Faulty(cs) == CASE fault = "dup-ident" -> [cs EXCEPT ![2] = [cs[2] EXCEPT !.n = cs[1].n]]
                [] fault = "dup-ident-last" -> [cs EXCEPT ![Len(cs)] = [cs[Len(cs)] EXCEPT !.n = cs[Len(cs) - 1].n]]
                [] fault = "dangling-ref" -> [cs EXCEPT ![Len(cs)] = Comp(cs[Len(cs)].n, TRef("Nowhere"), "M")]
                [] fault \in ImportFaults -> [cs EXCEPT ![Len(cs)] = Comp(cs[Len(cs)].n, TRef("Ext"), "M")]
                [] OTHER -> cs
EnumDef == CASE fault = "dup-enum-name" -> TEnum(<<EItem("a", 0), EItem("b", 1), EItem("a", 2)>>, FALSE, <<>>)
             [] fault = "dup-enum-value" -> TEnum(<<EItem("a", 0), EItem("b", 1), EItem("c", 1)>>, FALSE, <<>>)
             [] fault = "dup-enum-name-ext" -> TEnum(<<EItem("a", 0), EItem("b", 1)>>, TRUE, <<EItem("c", 2), EItem("c", 3)>>)
             [] fault = "dup-enum-value-ext" -> TEnum(<<EItem("a", 0), EItem("b", 1)>>, TRUE, <<EItem("c", 5), EItem("d", 5)>>)
             [] fault \in BigFaults -> BigEnumDef(BigEnums[CHOOSE i \in DOMAIN BigEnums : BigName(i) = fault])
             [] OTHER -> TEnum(<<EItem("a", 0), EItem("b", 1)>>, FALSE, <<>>)
ModuleOf(cs) ==
  [name |-> "LG", tagging |-> tagging,
   \* TOP comes first: the types it refers to are defined after it
   defs |-> << [n |-> "TOP", t |-> IF extAt = 0 THEN [k |-> kind, comps |-> cs, ext |-> FALSE, adds |-> <<>>]
                                   ELSE [k |-> kind, comps |-> SubSeq(cs, 1, extAt), ext |-> TRUE,
                                         adds |-> SubSeq(cs, extAt + 1, Len(cs))]],
               [n |-> "CIB", t |-> TChoice(<<Comp("i", Int0, "M"), Comp("b", TBool, "M")>>, FALSE, <<>>)],
               [n |-> "CTT", t |-> TChoice(<<Comp("i", TTag("C", 0, "D", Int0), "M"), Comp("b", TTag("C", 1, "D", TBool), "M")>>, FALSE, <<>>)],
               [n |-> "RI", t |-> Int0],
               [n |-> "EN", t |-> EnumDef] >>]
TheModule == ModuleOf(Faulty(comps))
\* the same module with every component of the alias type RI given a type that clashes with nothing (used only to
\* delimit a recorded defect of asn1c: a reference to a non-CHOICE type against an untagged CHOICE)
NoAlias(cs) == [i \in DOMAIN cs |-> IF cs[i].t = TRef("RI") THEN [cs[i] EXCEPT !.t = TReal] ELSE cs[i]]
\* legality with the import resolved (Ext ::= OCTET STRING in LX) or not
ImportResolves == fault \in {"import-ok", "import-ok-exports-all"}
WithExt(mod) == [mod EXCEPT !.defs = @ \o <<[n |-> "Ext", t |-> TOctets(CNone)]>>]
VerdictOn(L(_), m) == IF fault \in ImportFaults THEN (ImportResolves /\ L(WithExt(m))) ELSE L(m)
Verdict(L(_)) == VerdictOn(L, TheModule)
\* AUTOMATIC tagging makes CIB / CTT themselves automatically tagged (CIB gets [0],[1]; CTT is tagged already)
Export == phase = "done" => PrintT(<<"SCN", ToJson([mod |-> TheModule, fault |-> fault, legal |-> Verdict(Legal), legal_split |-> Verdict(LegalSplit),
                                                         legal_noalias |-> VerdictOn(LegalSplit, ModuleOf(NoAlias(Faulty(comps))))])>>)
\* both verdicts must occur (vacuity guard, checked by the glue on the exported set)

\* ---- judge ------------------------------------------------------------------------
Scn == ndJsonDeserialize(IOEnv.VERIF_SCENARIOS)
Log == ndJsonDeserialize(IOEnv.VERIF_TRACE)
When(c, name) == IF c THEN {name} ELSE {}
Ev == Log[l]
LFaults(sc, ev) ==
  LET legal == sc.legal IN
  When(ev.signal # 0, "compiler-died")
  \cup When(ev.signal = 0 /\ legal /\ ev.exit # 0, "legal-module-rejected")
  \cup When(ev.signal = 0 /\ ~legal /\ ev.exit = 0, "illegal-module-accepted")
  \cup When(ev.signal = 0 /\ ev.exit # 0 /\ ~ev.diag, "rejected-without-diagnostic")
  \cup When(ev.signal = 0 /\ ev.exit # 0 /\ ev.files > 0, "rejected-but-wrote-code")
TInit == l = 1 /\ kind = "" /\ comps = <<>> /\ tagging = "" /\ fault = "none" /\ phase = "trace" /\ extAt = 0
TStep == /\ l <= Len(Log)
         /\ LET f == LFaults(Scn[Ev.id], Ev) IN
              f # {} => PrintT(<<"MISMATCH", ToJson([id |-> Ev.id, i |-> 1, l |-> l, reasons |-> SetSeq(f)])>>)
         /\ l' = l + 1 /\ UNCHANGED <<kind, comps, tagging, fault, phase, extAt>>
TNext == TStep
TraceAccepted == TLCGet("stats").diameter - 1 = Len(Log)
=============================================================================
