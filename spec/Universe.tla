------------------------------ MODULE Universe ------------------------------
(***************************************************************************)
(* The universe of ASN.1 "programs" explored by the checks: a sequence of  *)
(* modules, each a list of named type definitions.  Every leaf kind with   *)
(* every constraint shape (unconstrained, single value, constrained at     *)
(* each width class, semi-constrained, extensible), every constructor over *)
(* a palette with OPTIONAL / DEFAULT / extension markers, the three        *)
(* tagging environments, references and recursion.                         *)
(***************************************************************************)
EXTENDS Values

D(n, t) == [n |-> n, t |-> t]

RECURSIVE Ren(_, _)
RenComps(cs, p, tag) ==
  [i \in DOMAIN cs |-> [cs[i] EXCEPT !.n = IF cs[i].n = "x" THEN p \o tag \o ToString(i) ELSE cs[i].n,   \* (a given name is kept)
                                     !.t = Ren(cs[i].t, p \o tag \o ToString(i))]]
Ren(T, p) ==
  CASE IsIoSeq(T) \/ T.k = "OPEN" -> T
    [] T.k \in {"SEQUENCE", "SET", "CHOICE"} ->
         [T EXCEPT !.comps = RenComps(T.comps, p, "c"), !.adds = RenComps(T.adds, p, "x")]
    [] T.k \in {"SEQOF", "SETOF", "TAGGED"} -> [T EXCEPT !.t = Ren(T.t, p \o "e")]
    [] OTHER -> T

MkMod(name, tagging, defs) ==
  [name |-> name, tagging |-> tagging,
   defs |-> [i \in DOMAIN defs |-> [n |-> defs[i].n, t |-> Ren(defs[i].t, "m" \o ToString(i))]]]

R(a, b) == CRange(BI(a), BI(b))
RB(a, b) == CRange(BV(a), BV(b))
Int0 == TInt(CNone)
IA5 == TStr("IA5", CNone, <<>>)
C(t) == Comp("x", t, "M")
O(t) == Comp("x", t, "O")
Df(t, d) == CompD("x", t, d)

\* ---- leaves: every kind x every constraint shape ---------------------------
IntLeaves == <<
  D("I-unc", Int0),
  D("I-0-7", TInt(R(0, 7))),
  D("I-0-255", TInt(R(0, 255))),
  D("I-0-256", TInt(R(0, 256))),
  D("I-s8", TInt(R(-128, 127))),
  D("I-s8m", TInt(R(-129, 127))),
  D("I-0-65535", TInt(R(0, 65535))),
  D("I-0-65536", TInt(R(0, 65536))),
  D("I-s16", TInt(R(-32768, 32767))),
  D("I-s16p", TInt(R(-32768, 32768))),
  D("I-one", TInt(R(1, 1))),
  D("I-five", TInt(R(5, 5))),
  D("I-m1-1", TInt(R(-1, 1))),
  D("I-3-6", TInt(R(3, 6))),
  D("I-1000-1255", TInt(R(1000, 1255))),
  D("I-0-max", TInt(CRange(BI(0), BMax))),
  D("I-min-10", TInt(CRange(BMin, BI(10)))),
  D("I-u32", TInt(RB(I(0), UInt32Max))),
  D("I-u32p", TInt(RB(I(0), IPow2(32)))),
  D("I-s32", TInt(RB(Int32Min, Int32Max))),
  D("I-s32m", TInt(RB(IDec(Int32Min), Int32Max))),
  D("I-s32p", TInt(RB(Int32Min, IPow2(31)))),
  D("I-u64", TInt(RB(I(0), IDec(IPow2(64))))),
  D("I-s64", TInt(RB(INeg(IPow2(63)), IDec(IPow2(63))))),
  D("I-0-7-ext", TInt(CExt(R(0, 7)))),
  D("I-m1-1-ext", TInt(CExt(R(-1, 1)))),
  D("I-one-ext", TInt(CExt(R(1, 1)))),
  D("I-0-255-ext", TInt(CExt(R(0, 255)))),
  D("I-1-65536-ext", TInt(CExt(R(1, 65536)))) >>

EnumLeaves == <<
  D("E-abc", TEnum(<<EItem("a", 0), EItem("b", 1), EItem("c", 2)>>, FALSE, <<>>)),
  D("E-vals", TEnum(<<EItem("a", 5), EItem("b", -1), EItem("c", 300)>>, FALSE, <<>>)),
  D("E-one", TEnum(<<EItem("a", 0)>>, FALSE, <<>>)),
  D("E-ext0", TEnum(<<EItem("a", 0), EItem("b", 1)>>, TRUE, <<>>)),
  D("E-ext2", TEnum(<<EItem("a", 0), EItem("b", 1)>>, TRUE, <<EItem("c", 2), EItem("d", 3)>>)),
  \* names longer than the 64-octet scratch buffers of the formatted-output helpers
  D("E-long", TEnum(<<EItem("a-very-long-enumeration-item-name-that-does-not-fit-a-small-scratch-buffer-one", 0), EItem("another-quite-long-enumeration-item-name-for-the-formatted-output-path-two", 1), EItem("z", 2)>>, FALSE, <<>>)),
  D("E-big", TEnum(<<EItem("a", -32769), EItem("b", 128), EItem("c", 2147483647)>>, FALSE, <<>>)) >>

StrLeaves == <<
  D("B-unc", TBits(CNone)),
  D("B-8", TBits(R(8, 8))),
  D("B-3", TBits(R(3, 3))),
  D("B-16", TBits(R(16, 16))),
  D("B-17", TBits(R(17, 17))),
  D("B-0-7", TBits(R(0, 7))),
  D("B-1-20", TBits(R(1, 20))),
  D("B-4-ext", TBits(CExt(R(4, 4)))),
  D("B-1-9-ext", TBits(CExt(R(1, 9)))),
  D("O-unc", TOctets(CNone)),
  D("O-2", TOctets(R(2, 2))),
  D("O-3", TOctets(R(3, 3))),
  D("O-0-3", TOctets(R(0, 3))),
  D("O-1-20", TOctets(R(1, 20))),
  D("O-2-ext", TOctets(CExt(R(2, 2)))),
  D("O-1-2-ext", TOctets(CExt(R(1, 2)))),
  D("O-min5", TOctets(CRange(BI(5), BMax))),
  D("O-1-65535", TOctets(R(1, 65535))),
  D("O-1-65536", TOctets(R(1, 65536))),
  D("O-0-65537", TOctets(R(0, 65537))),
  D("S-ia5", IA5),
  D("S-ia5-1-4", TStr("IA5", R(1, 4), <<>>)),
  D("S-ia5-3", TStr("IA5", R(3, 3), <<>>)),
  D("S-ia5-ext", TStr("IA5", CExt(R(1, 2)), <<>>)),
  D("S-ia5-AB", TStr("IA5", CNone, <<65, 66>>)),
  D("S-ia5-AD-2", TStr("IA5", R(2, 2), <<65, 66, 67, 68>>)),
  D("S-ia5-dig", TStr("IA5", R(0, 5), <<48, 49, 50, 51, 52, 53, 54, 55, 56, 57>>)),
  D("S-ia5-09P", TStr("IA5", R(1, 4), <<48, 49, 50, 51, 52, 53, 54, 55, 56, 57, 80>>)),
  D("S-prt-hexp", TStr("Printable", CNone, <<48, 49, 57, 97, 102, 112>>)),
  D("S-vis", TStr("Visible", CNone, <<>>)),
  D("S-vis-5", TStr("Visible", R(5, 5), <<>>)),
  D("S-vis-az", TStr("Visible", R(1, 3), <<97, 98, 99, 120, 121, 122>>)),
  D("S-prt", TStr("Printable", CNone, <<>>)),
  D("S-prt-2-3", TStr("Printable", R(2, 3), <<>>)),
  D("S-num", TStr("Numeric", CNone, <<>>)),
  D("S-num-4", TStr("Numeric", R(4, 4), <<>>)),
  D("S-utf8", TStr("UTF8", CNone, <<>>)),
  D("S-utf8-1-3", TStr("UTF8", R(1, 3), <<>>)),
  D("S-bmp", TStr("BMP", CNone, <<>>)),
  D("S-bmp-2", TStr("BMP", R(2, 2), <<>>)),
  D("S-univ", TStr("Universal", CNone, <<>>)),
  D("S-univ-1-2", TStr("Universal", R(1, 2), <<>>)),
  D("S-utc", TStr("UTCTime", CNone, <<>>)),
  D("S-gt", TStr("GeneralizedTime", CNone, <<>>)) >>

MiscLeaves == <<
  D("Z-bool", TBool), D("Z-null", TNull), D("Z-real", TReal), D("Z-oid", TOid), D("Z-reloid", TRelOid) >>

\* ---- tagged leaves: classes, numbers at the identifier-octet boundaries -----
TagLeaves == <<
  D("G-c0i", TTag("C", 0, "I", Int0)),
  D("G-c0e", TTag("C", 0, "E", Int0)),
  D("G-c30i", TTag("C", 30, "I", TBool)),
  D("G-c31i", TTag("C", 31, "I", TBool)),
  D("G-a127e", TTag("A", 127, "E", TNull)),
  D("G-a128i", TTag("A", 128, "I", TNull)),
  D("G-p16383e", TTag("P", 16383, "E", IA5)),
  D("G-p16384i", TTag("P", 16384, "I", IA5)),
  D("G-c2m", TTag("C", 2147483647, "I", Int0)),
  D("G-in-c2e", TTag("C", 2, "E", Int0)),
  D("G-in-a2i", TTag("A", 2, "I", TOctets(CNone))),
  D("G-u-cc", TTag("C", 1, "E", TRef("G-in-c2e"))),
  D("G-u-ci", TTag("C", 1, "I", TRef("G-in-c2e"))),
  D("G-u-ic", TTag("C", 1, "E", TRef("G-in-a2i"))),
  D("G-u-ii", TTag("P", 1, "I", TRef("G-in-a2i"))),
  D("G-dflt", TTag("C", 7, "D", Int0)),
  D("G-ref", TTag("A", 3, "I", TRef("G-c0e"))),
  D("G-seq-i", TTag("A", 4, "I", TSeq(<<C(Int0)>>, FALSE, <<>>))),
  D("G-choice", TTag("C", 5, "D", TChoice(<<C(Int0), C(TBool)>>, FALSE, <<>>))) >>

\* ---- constructed types over a palette ---------------------------------------
I07 == TInt(R(0, 7))
TN(n) == Comp("x", TTag("C", n, "I", TBool), "O")
TA(cl, n, t) == Comp("x", TTag(cl, n, "I", t), "M")
Constructed == <<
  D("Q-empty", TSeq(<<>>, FALSE, <<>>)),
  D("Q-one", TSeq(<<C(Int0)>>, FALSE, <<>>)),
  D("Q-mm", TSeq(<<C(Int0), C(TBool)>>, FALSE, <<>>)),
  D("Q-mo", TSeq(<<C(I07), O(TBool)>>, FALSE, <<>>)),
  D("Q-om", TSeq(<<O(TBool), C(I07)>>, FALSE, <<>>)),
  D("Q-ooo", TSeq(<<O(Int0), O(TBool), O(IA5)>>, FALSE, <<>>)),
  D("Q-def", TSeq(<<Df(Int0, I(3)), C(TBool)>>, FALSE, <<>>)),
  D("Q-defneg", TSeq(<<Df(Int0, I(-5)), C(TBool), Df(TInt(R(-10, 10)), I(-10))>>, FALSE, <<>>)),
  \* DEFAULT on components whose type is a reference to a defined type
  D("Q-defref", TSeq(<<C(I07), Df(TRef("I-unc"), I(50)), Df(TRef("E-abc"), 1), Df(TRef("S-ia5"), <<65, 66>>), Df(TRef("Z-bool"), TRUE)>>, FALSE, <<>>)),
  D("Q-def2", TSeq(<<Df(I07, I(0)), Df(TBool, TRUE), O(TNull)>>, FALSE, <<>>)),
  D("Q-defstr", TSeq(<<Df(IA5, <<65, 66>>), C(I07)>>, FALSE, <<>>)),
  D("Q-ext0", TSeq(<<C(I07)>>, TRUE, <<>>)),
  D("Q-extal", TSeq(<<C(TInt(R(0, 127)))>>, TRUE, <<O(TOctets(CNone))>>)),       \* its additions start octet-aligned in PER
  D("Q-ext1", TSeq(<<C(I07), O(TBool)>>, TRUE, <<C(Int0)>>)),
  D("Q-ext2", TSeq(<<C(TBool)>>, TRUE, <<C(IA5), O(I07)>>)),
  D("Q-ext3", TSeq(<<>>, TRUE, <<C(TBool), C(TOctets(CNone)), C(TNull)>>)),
  D("Q-extdef", TSeq(<<C(I07)>>, TRUE, <<Df(Int0, I(3)), O(TBool)>>)),
  D("Q-extdef2", TSeq(<<C(I07), Df(TBool, FALSE)>>, TRUE, <<Df(I07, I(5)), Df(IA5, <<65>>)>>)),
  D("Q-ext7", TSeq(<<C(I07)>>, TRUE, <<TN(0), TN(1), TN(2), TN(3), TN(4), TN(5), TN(6)>>)),
  D("Q-ext8", TSeq(<<C(I07)>>, TRUE, <<TN(0), TN(1), TN(2), TN(3), TN(4), TN(5), TN(6), TN(7)>>)),
  D("Q-ext9", TSeq(<<C(I07)>>, TRUE, <<TN(0), TN(1), TN(2), TN(3), TN(4), TN(5), TN(6), TN(7), TN(8)>>)),
  D("Q-opt9", TSeq(<<Comp("x", TTag("C", 0, "I", TNull), "O"), Comp("x", TTag("C", 1, "I", TNull), "O"),
                     Comp("x", TTag("C", 2, "I", TNull), "O"), Comp("x", TTag("C", 3, "I", TNull), "O"),
                     Comp("x", TTag("C", 4, "I", TNull), "O"), Comp("x", TTag("C", 5, "I", TNull), "O"),
                     Comp("x", TTag("C", 6, "I", TNull), "O"), Comp("x", TTag("C", 7, "I", TNull), "O"),
                     Comp("x", TTag("C", 8, "I", TNull), "O"), C(TBool)>>, FALSE, <<>>)),
  D("Q-nest", TSeq(<<C(TSeq(<<C(I07), O(TBool)>>, FALSE, <<>>)), C(TSeqOf(I07, CNone))>>, FALSE, <<>>)),
  D("Q-refs", TSeq(<<C(TRef("Q-mo")), O(TRef("K-ib")), C(TRef("E-abc"))>>, FALSE, <<>>)),
  D("Q-leaves", TSeq(<<C(TReal), C(TOid), C(TBits(CNone)), C(TStr("UTF8", CNone, <<>>)), C(TRef("E-ext2"))>>, FALSE, <<>>)),
  D("Q-tags", TSeq(<<Comp("x", TTag("C", 0, "I", Int0), "O"), Comp("x", TTag("C", 1, "E", Int0), "O"),
                     Comp("x", TTag("A", 1, "I", TBool), "M")>>, FALSE, <<>>)),
  D("Q-rec", TSeq(<<C(I07), O(TRef("Q-rec"))>>, FALSE, <<>>)),
  D("W-mm", TSet(<<C(Int0), C(TBool)>>, FALSE, <<>>)),
  D("W-tags", TSet(<<Comp("x", TTag("C", 2, "I", Int0), "M"), Comp("x", TTag("C", 0, "I", TBool), "O"),
                     Comp("x", TTag("A", 1, "E", IA5), "M"), C(TNull)>>, FALSE, <<>>)),
  D("W-def", TSet(<<Df(Int0, I(7)), O(TBool), C(TNull)>>, FALSE, <<>>)),
  D("W-ext", TSet(<<C(TBool)>>, TRUE, <<Comp("x", TTag("C", 0, "I", Int0), "M")>>)),
  D("W-choice", TSet(<<C(TRef("K-ib")), Comp("x", TTag("C", 0, "I", TBool), "M"), Comp("x", TTag("C", 1, "I", IA5), "O")>>, FALSE, <<>>)),
  D("K-ib", TChoice(<<C(Int0), C(TBool)>>, FALSE, <<>>)),
  D("K-one", TChoice(<<C(TNull)>>, FALSE, <<>>)),
  D("K-order", TChoice(<<Comp("x", TTag("C", 2, "I", Int0), "M"), Comp("x", TTag("C", 0, "I", TBool), "M"),
                         Comp("x", TTag("A", 9, "I", IA5), "M"), C(TNull)>>, FALSE, <<>>)),
  D("K-tags", TChoice(<<TA("C", 62, TBool), TA("C", 63, TBool), TA("C", 64, TBool), TA("A", 127, TNull), TA("A", 128, I07),
                        TA("P", 16383, TBool), TA("P", 16384, I07), TA("C", 30, TNull), TA("C", 31, TBool), TA("C", 0, I07)>>, FALSE, <<>>)),
  D("K-ext0", TChoice(<<C(I07), C(TBool)>>, TRUE, <<>>)),
  D("K-ext2", TChoice(<<C(I07), C(TBool)>>, TRUE, <<C(TNull), C(IA5)>>)),
  D("K-nest", TChoice(<<C(TRef("K-ib")), C(TNull), C(TSeq(<<C(I07)>>, FALSE, <<>>))>>, FALSE, <<>>)),
  D("K-rec", TChoice(<<C(I07), Comp("x", TTag("C", 0, "E", TRef("K-rec")), "M")>>, FALSE, <<>>)),
  D("L-int", TSeqOf(Int0, CNone)),
  D("L-07", TSeqOf(I07, CNone)),
  D("L-bool-2", TSeqOf(TBool, R(2, 2))),
  D("L-0-3", TSeqOf(I07, R(0, 3))),
  D("L-1-2-ext", TSeqOf(I07, CExt(R(1, 2)))),
  D("L-null", TSeqOf(TNull, CNone)),
  D("L-bool-65535", TSeqOf(TBool, R(1, 65535))),
  D("L-bool-65536", TSeqOf(TBool, R(1, 65536))),
  D("L-seq", TSeqOf(TSeq(<<C(I07), O(TBool)>>, FALSE, <<>>), CNone)),
  D("L-ref", TSeqOf(TRef("K-ib"), CNone)),
  D("K-in", TChoice(<<C(Int0), C(TNull)>>, FALSE, <<>>)),
  \* an alternative named like the component that holds the CHOICE (XER: the same tag opens both)
  D("Q-samename", TSeq(<<C(I07), Comp("address", TChoice(<<Comp("address", TStr("UTF8", CNone, <<>>), "M"), Comp("geo", Int0, "M")>>, FALSE, <<>>), "M")>>, FALSE, <<>>)),
  \* an untagged CHOICE nested in a CHOICE, alternatives of different tag classes (canonical order: class before number)
  D("K-mix", TChoice(<<C(TStr("IA5", R(1, 1), <<>>)), C(TChoice(<<C(TNull), C(TTag("C", 0, "I", I07))>>, FALSE, <<>>))>>, FALSE, <<>>)),
  \* lists of an untagged CHOICE whose alternatives are decoded piecewise (string, constructed)
  D("K-os", TChoice(<<C(TOctets(CNone)), C(TSeq(<<C(I07), O(TBool)>>, FALSE, <<>>))>>, FALSE, <<>>)),
  D("L-os", TSeqOf(TRef("K-os"), CNone)),
  D("M-os", TSetOf(TRef("K-os"), CNone)),
  D("M-in", TSetOf(TRef("K-in"), CNone)),       \* elements with different tags and lengths: the canonical order is by octets

  D("L-str", TSeqOf(IA5, CNone)),
  D("L-enum", TSeqOf(TRef("E-abc"), CNone)),
  D("L-rec", TSeqOf(TRef("L-rec"), CNone)),
  D("M-int", TSetOf(Int0, CNone)),
  D("M-07", TSetOf(I07, CNone)),
  D("M-str", TSetOf(IA5, CNone)),
  D("M-oct-1-3", TSetOf(TOctets(CNone), R(1, 3))),
  D("M-seq", TSetOf(TRef("Q-mo"), CNone)),
  D("M-bool", TSetOf(TBool, CNone)) >>

ModExplicit == MkMod("VE", "EXPLICIT", IntLeaves \o EnumLeaves \o StrLeaves \o MiscLeaves \o TagLeaves \o Constructed)

\* constructed types legal under every tagging environment
CommonDefs == <<
  D("E-abc", TEnum(<<EItem("a", 0), EItem("b", 1), EItem("c", 2)>>, FALSE, <<>>)),
  D("K-ib", TChoice(<<C(Int0), C(TBool)>>, FALSE, <<>>)),
  D("Q-mm", TSeq(<<C(Int0), C(TBool)>>, FALSE, <<>>)),
  D("Q-mo", TSeq(<<C(I07), O(TBool)>>, FALSE, <<>>)),
  D("Q-ooo", TSeq(<<O(Int0), O(TBool), O(IA5)>>, FALSE, <<>>)),
  D("Q-def", TSeq(<<Df(Int0, I(3)), C(TBool)>>, FALSE, <<>>)),
  D("Q-defneg", TSeq(<<Df(Int0, I(-5)), C(TBool), Df(TInt(R(-10, 10)), I(-10))>>, FALSE, <<>>)),
  \* DEFAULT on components whose type is a reference to a defined type
  D("R-int", Int0), D("R-str", IA5), D("R-bool", TBool),
  D("Q-defref", TSeq(<<C(I07), Df(TRef("R-int"), I(50)), Df(TRef("E-abc"), 1), Df(TRef("R-str"), <<65, 66>>), Df(TRef("R-bool"), TRUE)>>, FALSE, <<>>)),
  D("Q-ext1", TSeq(<<C(I07), O(TBool)>>, TRUE, <<C(Int0)>>)),
  D("Q-extal", TSeq(<<C(TInt(R(0, 127)))>>, TRUE, <<O(TOctets(CNone))>>)),       \* its additions start octet-aligned in PER
  D("Q-extdef", TSeq(<<C(I07)>>, TRUE, <<Df(Int0, I(3)), O(TBool)>>)),
  \* an extensible type with additions present, carried inside an extension addition (an open type in PER / OER)
  D("Q-extnest", TSeq(<<C(I07)>>, TRUE, <<C(TRef("Q-ext1")), O(TRef("K-ext2"))>>)),
  D("K-extseq", TChoice(<<C(I07)>>, TRUE, <<C(TRef("Q-ext1"))>>)),
  D("Q-choice", TSeq(<<C(TRef("K-ib")), O(TChoice(<<C(TNull), C(TOctets(CNone))>>, FALSE, <<>>)), C(TReal)>>, FALSE, <<>>)),
  D("Q-tagged", TSeq(<<Comp("x", TTag("C", 5, "D", Int0), "M"), Comp("x", TTag("C", 6, "D", TRef("K-ib")), "M")>>, FALSE, <<>>)),
  D("Q-nest", TSeq(<<C(TSeq(<<C(I07), O(TBool)>>, FALSE, <<>>)), C(TSeqOf(I07, CNone))>>, FALSE, <<>>)),
  D("Q-rec", TSeq(<<C(I07), O(TRef("Q-rec"))>>, FALSE, <<>>)),
  D("W-mm", TSet(<<C(Int0), C(TBool), O(IA5)>>, FALSE, <<>>)),
  D("K-ext2", TChoice(<<C(I07), C(TBool)>>, TRUE, <<C(TNull), C(IA5)>>)),
  D("K-nest", TChoice(<<C(TRef("K-ib")), C(TNull), C(TSeq(<<C(I07)>>, FALSE, <<>>))>>, FALSE, <<>>)),
  D("L-ref", TSeqOf(TRef("K-ib"), CNone)),
  D("K-in", TChoice(<<C(Int0), C(TNull)>>, FALSE, <<>>)),
  \* an alternative named like the component that holds the CHOICE (XER: the same tag opens both)
  D("Q-samename", TSeq(<<C(I07), Comp("address", TChoice(<<Comp("address", TStr("UTF8", CNone, <<>>), "M"), Comp("geo", Int0, "M")>>, FALSE, <<>>), "M")>>, FALSE, <<>>)),
  \* an untagged CHOICE nested in a CHOICE, alternatives of different tag classes (canonical order: class before number)
  D("K-mix", TChoice(<<C(TStr("IA5", R(1, 1), <<>>)), C(TChoice(<<C(TNull), C(TTag("C", 0, "I", I07))>>, FALSE, <<>>))>>, FALSE, <<>>)),
  \* lists of an untagged CHOICE whose alternatives are decoded piecewise (string, constructed)
  D("K-os", TChoice(<<C(TOctets(CNone)), C(TSeq(<<C(I07), O(TBool)>>, FALSE, <<>>))>>, FALSE, <<>>)),
  D("L-os", TSeqOf(TRef("K-os"), CNone)),
  D("M-os", TSetOf(TRef("K-os"), CNone)),
  D("M-in", TSetOf(TRef("K-in"), CNone)),       \* elements with different tags and lengths: the canonical order is by octets

  D("M-seq", TSetOf(TSeq(<<C(I07), O(TBool)>>, FALSE, <<>>), CNone)),
  \* element encodings of more than 32 octets (they outgrow the first buffer of the SET OF sorter)
  D("Q-pair", TSeq(<<C(TOctets(R(18, 20))), C(TOctets(R(18, 20)))>>, FALSE, <<>>)),
  D("M-long", TSetOf(TRef("Q-pair"), CNone)),
  D("G-dflt", TTag("C", 7, "D", Int0)),
  D("G-choice", TTag("C", 5, "D", TRef("K-ib"))) >>
\* legal only because AUTOMATIC TAGS makes the components distinct
AutoOnlyDefs == <<
  D("Q-same", TSeq(<<O(Int0), O(Int0), C(Int0)>>, FALSE, <<>>)),
  D("W-same", TSet(<<C(Int0), C(TBool), O(Int0)>>, FALSE, <<>>)),
  D("K-same", TChoice(<<C(Int0), C(Int0), C(TBool)>>, FALSE, <<>>)),
  D("K-rec", TChoice(<<C(I07), C(TRef("K-rec"))>>, FALSE, <<>>)),
  \* mutual recursion through a MANDATORY component (asn1c holds it by pointer), also between optional ones in an extensible type
  D("N-node", TSeq(<<C(I07), C(TRef("N-link")), O(IA5)>>, FALSE, <<>>)),
  D("N-link", TChoice(<<C(TNull), C(TRef("N-node"))>>, FALSE, <<>>)),
  D("N-frame", TSeq(<<O(I07), C(TRef("N-body")), Df(I07, I(0))>>, TRUE, <<>>)),
  D("N-body", TChoice(<<C(TNull), C(TRef("N-frame"))>>, FALSE, <<>>)),
  D("Q-kk", TSeq(<<O(TRef("K-ib")), C(TRef("K-ib"))>>, FALSE, <<>>)) >>

ModAutomatic == MkMod("VA", "AUTOMATIC", CommonDefs \o AutoOnlyDefs)
ModImplicit == MkMod("VI", "IMPLICIT", CommonDefs)

\* ---- large values: PER fragmentation (16K / 64K boundaries), long-form lengths ---------------
\* (explored in the thorough tier: evaluating a 64K-element encoding takes TLC tens of seconds)
Pat(n) == [i \in 1..n |-> (i * 7) % 256]
ModBig == MkMod("VB", "AUTOMATIC", <<
  D("O-big", TOctets(CNone)),
  D("Q-extbig", TSeq(<<C(TInt(R(0, 255)))>>, TRUE, <<O(TOctets(CNone))>>)),
  D("L-bool-big", TSeqOf(TBool, R(1, 65536))) >>)
BigValues(n) ==
  CASE n = "O-big" -> {Pat(k) : k \in {16383, 16384, 16385, 32768, 65536}}
    [] n = "Q-extbig" -> {<<Pres(I(7)), Pres(Pat(k))>> : k \in {16382, 16383, 16384, 32765, 49153}}
    [] n = "L-bool-big" -> {[i \in 1..k |-> i % 3 = 0] : k \in {16384, 65536}}

\* ---- constraint expression trees in the codecs (C09): set arithmetic, serial application,
\* subtype chains through references, extension markers, 32 / 64-bit boundary values
V(x) == BV(x)
ConstraintDefs == <<
  D("C-union", TInt(CUnion(R(1, 3), R(8, 10)))),
  D("C-union-adj", TInt(CUnion(R(0, 3), R(4, 7)))),
  D("C-union-over", TInt(CUnion(R(0, 5), R(3, 9)))),
  D("C-union-single", TInt(CUnion(CVal(BI(1)), CUnion(CVal(BI(2)), CVal(BI(300)))))),
  D("C-inter", TInt(CInter(CRange(BMin, BI(5)), CRange(BI(3), BMax)))),
  D("C-inter2", TInt(CInter(R(0, 100), R(50, 200)))),
  D("C-except", TInt(CExcept(R(1, 10), CVal(BI(5))))),
  D("C-except-edge", TInt(CExcept(R(0, 7), CVal(BI(7))))),
  D("C-serial", TInt(CSerial(R(0, 100), R(5, 10)))),
  D("C-serial-minmax", TInt(CSerial(R(0, 100), CRange(BMin, BI(10))))),
  D("C-serial-ext", TInt(CSerial(R(0, 100), CExt(R(5, 10))))),
  D("C-ext-serial", TInt(CSerial(CExt(R(0, 100)), R(5, 10)))),
  D("C-base", TInt(R(0, 255))),
  D("C-chain1", TRefC("C-base", R(10, 20))),
  D("C-chain2", TRefC("C-chain1", CRange(BMin, BI(15)))),
  D("C-chain3", TRefC("C-chain2", CExt(R(11, 12)))),
  D("C-i64min-union", TInt(CUnion(CVal(V(INeg(IPow2(63)))), R(5, 10)))),
  D("C-i64-full", TInt(CRange(V(INeg(IPow2(63))), V(IDec(IPow2(63)))))),
  D("C-i32-edge", TInt(CUnion(CVal(V(Int32Min)), CVal(V(Int32Max))))),
  D("C-neg-union", TInt(CUnion(R(-129, -128), R(126, 127)))),
  D("C-pow2", TInt(CUnion(R(0, 0), CVal(BI(255))))),
  D("C-pow2p", TInt(CUnion(R(0, 0), CVal(BI(256))))),
  D("C-u16-union", TInt(CUnion(R(0, 10), CVal(BI(65535))))),
  D("C-u16p-union", TInt(CUnion(R(0, 10), CVal(BI(65536))))),
  D("C-u32-union", TInt(CUnion(R(0, 3600), CVal(BV(UInt32Max))))),
  D("C-allexcept", TInt(CSerial(R(0, 100), CAllExcept(CVal(BI(5)))))),           \* INTEGER (0..100)(ALL EXCEPT 5)
  D("C-allexcept-size", TOctets(CAllExcept(CVal(BI(0))))),                      \* OCTET STRING (SIZE (ALL EXCEPT 0))
  D("C-size-64k", TOctets(R(1, 65536))),
  D("C-size-64k-union", TOctets(CUnion(R(1, 2), CVal(BI(65536))))),
  D("C-size-64k-inter", TOctets(CInter(CRange(BMin, BI(65536)), CRange(BI(1), BMax)))),
  D("C-seqof-64k", TSeqOf(TBool, R(1, 65536))),              \* a gap between 0 and 2^32 - 1
  D("C-gap-minmax", TInt(CUnion(CRange(BMin, BV(INeg(IOfInt(5)))), CRange(BV(IOfInt(5)), BMax)))),   \* MIN..-5 | 5..MAX
  D("C-size-union", TOctets(CUnion(R(1, 2), CVal(BI(4))))),
  D("C-size-inter", TOctets(CInter(R(0, 10), R(2, 3)))),
  D("C-size-serial", TStr("IA5", CSerial(R(0, 10), R(2, 3)), <<>>)),
  D("C-size-except", TOctets(CExcept(R(1, 4), CVal(BI(4))))),
  D("C-seqof-union", TSeqOf(TBool, CUnion(R(1, 1), R(3, 4)))) >>
ModConstraints == MkMod("VC", "EXPLICIT", ConstraintDefs)

\* ---- small modules that define the same type identifiers (cross-module name handling, C12) and
\* carry character-string values the pretty-printer must reproduce verbatim
ModX1 == MkMod("VX1", "EXPLICIT", <<
  D("Id", Int0), D("Rec", TSeq(<<C(TRef("Id")), O(TBool)>>, FALSE, <<>>)), D("OnlyOne", TNull) >>)
ModX2 == MkMod("VX2", "AUTOMATIC", <<
  D("Id", IA5), D("Rec", TChoice(<<C(TRef("Id")), C(TBool)>>, FALSE, <<>>)), D("OnlyTwo", TBool) >>)
ModX3 == MkMod("VX3", "IMPLICIT", <<
  D("Id", TOctets(R(1, 4))),
  D("Pct", TSeq(<<Df(IA5, <<49, 48, 48, 37, 32, 100, 111, 110, 101>>), Df(IA5, <<53, 48, 37>>), Df(TStr("Visible", CNone, <<>>), <<37, 115, 37, 110>>),
                  C(TRef("Id"))>>, FALSE, <<>>)) >>)

\* ---- information object sets (C18) ---------------------------------------------------------
\* rows of built-in types (Frame1, Frame3), of defined types (Frame2), a single-row set (Frame3)
IoRows1 == <<Row(1, "INTEGER", Int0), Row(2, "IA5String", IA5), Row(300, "Rec", TRef("Rec")), Row(128, "BOOLEAN", TBool)>>
IoRows2 == <<Row(5, "Rec", TRef("Rec")), Row(255, "List", TRef("List")), Row(0, "NullT", TRef("NullT")), Row(32767, "OctT", TRef("OctT"))>>
IoRows3 == <<Row(7, "REAL", TReal)>>
\* OBJECT IDENTIFIER identifiers
IoRows4 == <<RowO(<<1, 2, 840, 1>>, "Rec", TRef("Rec")), RowO(<<1, 2, 840, 2>>, "BOOLEAN", TBool), RowO(<<2, 999>>, "OctT", TRef("OctT")),
             RowO(<<1, 2, 840, 1, 0>>, "Frame1", TRef("Frame1"))>>
ModIoc == MkMod("VO", "AUTOMATIC", <<
  D("NullT", TNull), D("OctT", TOctets(CNone)),
  D("Rec", TSeq(<<C(Int0), C(IA5)>>, FALSE, <<>>)),
  D("List", TSeqOf(IA5, CNone)),
  D("Frame1", TIoSeq(IoRows1, FALSE, "1")),
  D("Frame2", TIoSeq(IoRows2, TRUE, "2")),
  D("Frame3", TIoSeq(IoRows3, FALSE, "3")),
  D("Frame4", TIoSeq(IoRows4, TRUE, "4")),
  D("Outer", TSeq(<<C(TBool), C(TRef("Frame1")), O(TRef("Frame2"))>>, FALSE, <<>>)),
  D("Many", TSeqOf(TRef("Frame4"), CNone)) >>)

\* identifier values outside 0..32767 (asn1c refuses them under -fwide-types: a separate module)
IoRows5 == <<Row(-1, "Nul", TRef("Nul")), Row(65536, "BOOLEAN", TBool), Row(2147483647, "Pair", TRef("Pair")), Row(-32769, "IA5String", IA5)>>
ModIoc2 == MkMod("VP", "AUTOMATIC", <<
  D("Nul", TNull), D("Pair", TSeq(<<C(TBool), O(Int0)>>, FALSE, <<>>)),
  D("Frame5", TIoSeq(IoRows5, FALSE, "5")),
  D("Wrap", TSeq(<<C(TRef("Frame5")), O(TRef("Frame5"))>>, TRUE, <<>>)),
  D("Frames", TSetOf(TRef("Frame5"), CNone)) >>)

\* an OPTIONAL open type component
ModIoc3 == MkMod("VQ", "AUTOMATIC", <<
  D("Pair", TSeq(<<C(TBool), O(Int0)>>, FALSE, <<>>)),
  D("Frame6", TIoSeqOpt(<<Row(1, "INTEGER", Int0), Row(2, "IA5String", IA5), Row(3, "Pair", TRef("Pair"))>>, FALSE, "6")),
  D("Frames", TSeqOf(TRef("Frame6"), CNone)) >>)

Modules == <<ModExplicit, ModAutomatic, ModImplicit, ModBig, ModConstraints, ModX1, ModX2, ModX3, ModIoc, ModIoc2, ModIoc3>>
=============================================================================
