CONSTANTS
  Mod <- TheMod
  NameCodes <- TheNames
  ByteExact = TRUE
  ModIdx = 1
  PlanSet = "rt"
  Depth = 2
  MaxCompose = 6
  XerVals = 2
  ValCap = 0
  MaxFail = 6
  LeafCap = 0
  MutDense = FALSE
INIT Init
NEXT Next
INVARIANTS RoundTrip WireCanonical Export
CHECK_DEADLOCK FALSE
