CONSTANTS
  Mod <- TheMod
  ModIdx = 1
  PlanSet = "rt"
  Depth = 2
INIT Init
NEXT Next
INVARIANTS RoundTrip WireCanonical Export
CHECK_DEADLOCK FALSE
