CONSTANTS
  Mod <- TheMod
  ByteExact = TRUE
  ModIdx = 1
  PlanSet = "rt"
  Depth = 2
INIT Init
NEXT Next
INVARIANTS RoundTrip WireCanonical Export
CHECK_DEADLOCK FALSE
