------------------------------- MODULE Values -------------------------------
(***************************************************************************)
(* Boundary-biased finite value sets for every type term: every bound and  *)
(* its neighbours, the width edges 2^7, 2^8, 2^15, 2^16, 2^31, 2^32, 2^63, *)
(* 2^64 (+-1), empty / one / maximal sizes, first / last alphabet          *)
(* characters; for constructed types a base value, each component varied   *)
(* one at a time, each optional component dropped, the minimal value.      *)
(***************************************************************************)
EXTENDS Impl, BER

I(n) == IOfInt(n)

RECURSIVE Take(_, _)
Take(S, k) == IF k = 0 \/ S = {} THEN {} ELSE LET x == CHOOSE y \in S : TRUE IN {x} \cup Take(S \ {x}, k - 1)
\* k values spread over the (deterministic) enumeration order of the set: the smallest, the largest, and evenly between
Spread(S, k) == LET q == SetToSeq(S) n == Len(q)
                IN IF n <= k THEN S ELSE IF k = 1 THEN {q[n]} ELSE {q[1 + ((i * (n - 1)) \div (k - 1))] : i \in 0..(k - 1)}
RECURSIVE SetSeq(_)
SetSeq(S) == IF S = {} THEN <<>> ELSE LET x == CHOOSE y \in S : TRUE IN <<x>> \o SetSeq(S \ {x})

IntEdges ==
  { I(0), I(1), I(-1), I(2), I(127), I(128), I(-128), I(-129), I(255), I(256), I(32767), I(32768),
    I(-32768), I(-32769), I(65535), I(65536), I(8388607), I(8388608), I(-8388608), I(-8388609),
    Int32Max, IPow2(31), Int32Min, IDec(Int32Min), UInt32Max, IPow2(32),
    IDec(IPow2(63)), IPow2(63), INeg(IPow2(63)), IDec(INeg(IPow2(63))), IDec(IPow2(64)), IPow2(64) }

NearBounds(e) ==
  (IF e.lb.k = "V" THEN {e.lb.v, IInc(e.lb.v), IDec(e.lb.v)} ELSE {}) \cup
  (IF e.ub.k = "V" THEN {e.ub.v, IDec(e.ub.v), IInc(e.ub.v)} ELSE {})

IntValues(c) ==
  LET e == Eff(c)
  \* out-of-root values of an extensible constraint are values too, within the non-extensible parent
  IN {x \in IntEdges \cup NearBounds(e) : Representable(c, x) /\ (Sat(c, x, BMin, BMax) \/ (e.ext /\ InRange(OerEff(c), x)))}

\* sizes to try for a SIZE constraint, capped
SizeSamples(c, cap) ==
  LET e == EffSize(c)
      cand == {I(0), I(1), I(2), I(3), I(5), I(8), I(cap)} \cup NearBounds(e)
      ok == {x \in cand : ~x.neg /\ ILe(x, I(cap)) /\ (Sat(c, x, BI(0), BMax) \/ e.ext)}
  IN {IToInt(x) : x \in ok}

Doubles ==
  { <<0,0,0,0,0,0,0,0>>, <<128,0,0,0,0,0,0,0>>, <<63,240,0,0,0,0,0,0>>, <<191,240,0,0,0,0,0,0>>,
    <<63,224,0,0,0,0,0,0>>, <<64,36,0,0,0,0,0,0>>, <<63,185,153,153,153,153,153,154>>,
    <<127,239,255,255,255,255,255,255>>, <<0,16,0,0,0,0,0,0>>, <<127,240,0,0,0,0,0,0>>,
    <<255,240,0,0,0,0,0,0>>, <<127,248,0,0,0,0,0,0>>, <<64,9,33,251,84,68,45,24>>,
    <<84,178,73,173,37,148,195,125>>, <<67,64,0,0,0,0,0,1>>, <<192,94,221,47,26,159,190,119>>,
    <<65,224,0,0,0,0,0,0>>, <<55,160,0,0,0,0,0,0>>, <<71,239,255,255,224,0,0,0>> }
Subnormals == { <<0,0,0,0,0,0,0,1>>, <<0,15,255,255,255,255,255,255>>, <<128,0,0,0,0,0,0,3>>, <<0,8,0,0,0,0,0,0>> }

CharSamples(T) ==
  IF T.alpha # <<>> THEN T.alpha
  ELSE CASE T.st = "IA5" -> <<65, 38, 122, 48, 32, 126, 33, 60, 62>>
         [] T.st = "Visible" -> <<65, 60, 122, 48, 32, 126, 38>>
         [] T.st = "Printable" -> <<65, 122, 48, 32, 63, 39>>
         [] T.st = "Numeric" -> <<48, 57, 32, 53>>
         [] T.st = "UTF8" -> <<65, 233, 8364, 65536, 1114111, 127, 128, 2047, 2048, 65533, 38, 60>>
         [] T.st = "BMP" -> <<65, 255, 256, 8364, 65533>>
         [] T.st = "Universal" -> <<65, 65536, 1114111, 255>>

Cyc(chars, n, off) == [i \in 1..n |-> chars[((i - 1 + off) % Len(chars)) + 1]]

TimeValues(st) ==
  IF st = "UTCTime"
  THEN { <<50,51,48,49,49,53,49,50,48,48,48,48,90>>,      \* 230115120000Z
         <<57,57,49,50,51,49,50,51,53,57,53,57,90>>,      \* 991231235959Z
         <<48,48,48,49,48,49,48,48,48,48,48,48,90>>,      \* 000101000000Z
         <<48,49,48,50,48,51,48,52,48,53,90>>,            \* 0102030405Z (minute accuracy)
         <<48,49,48,50,48,51,48,52,48,53,48,54,45,48,56,48,48>>,   \* 010203040506-0800
         <<55,48,48,49,48,49,48,48,51,48,43,48,49,48,48>> }        \* 7001010030+0100 (previous day, previous year)
  ELSE { <<50,48,50,51,48,49,49,53,49,50,48,48,48,48,90>>,            \* 20230115120000Z
         <<49,57,55,48,48,49,48,49,48,48,48,48,48,48,90>>,            \* 19700101000000Z
         <<50,48,51,56,48,49,49,57,48,51,49,52,48,56,46,53,90>>,      \* 20380119031408.5Z
         <<50,49,48,54,48,50,48,55,48,54,50,56,49,54,46,49,50,51,90>>,   \* 21060207062816.123Z
         <<50,48,48,49,48,50,48,51,48,52,48,53,48,54>>,                  \* 20010203040506 (local time)
         <<50,48,48,49,48,50,48,51,48,52,48,53,48,54,43,48,49,51,48>>,   \* 20010203040506+0130
         <<50,48,48,49,48,49,48,49,48,48,51,48,43,48,49>>,               \* 200101010030+01 (previous year)
         <<50,48,48,49,48,49,48,49,48,48,90>>,                           \* 2001010100Z (hour accuracy)
         <<50,48,48,49,48,50,48,51,48,52,48,53,48,54,44,50,53,48,48,90>>,   \* 20010203040506,2500Z
         <<49,57,57,57,49,50,51,49,50,51,53,57,53,57,46,53,45,48,48,48,49>> }  \* 19991231235959.5-0001 (next century)

StringValues(T, cap) ==
  IF T.st \in {"UTCTime", "GeneralizedTime"} THEN TimeValues(T.st)
  ELSE LET ch == CharSamples(T) IN
       UNION {{Cyc(ch, n, 0), Cyc(ch, n, Len(ch) - 1)} : n \in SizeSamples(T.size, cap)}
       \cup (IF T.size.op = "none" /\ T.alpha = <<>> THEN {Cyc(ch, n, 1) : n \in {127, 128}} ELSE {})

BitPattern(n, kind) == [i \in 1..n |-> IF kind = "ones" THEN 1 ELSE IF kind = "alt" THEN i % 2 ELSE (i + 1) % 2]
BitsValues(T, cap) ==
  UNION {{[n |-> n, o |-> PackRight(BitPattern(n, kd))] : kd \in {"ones", "alt", "alt2"}} : n \in SizeSamples(T.size, cap)}
\* lengths at which an encoding crosses a power of two / the 127-128 length-form boundary
BoundarySizes(c) == {n \in {30, 31, 62, 63, 126, 127, 128, 129} : Sat(c, I(n), BI(0), BMax)}
OctetsValues(T, cap) ==
  UNION {{Cyc(<<0, 255, 1, 128, 127>>, n, 0), Cyc(<<171>>, n, 0)} : n \in SizeSamples(T.size, cap)}
  \* contents that look like an end-of-contents marker / like a high tag
  \cup UNION {{Cyc(<<0>>, n, 0), Cyc(<<255>>, n, 0)} : n \in SizeSamples(T.size, cap) \cap {2, 3, 8}}
  \cup (IF T.size.op = "none" THEN {Cyc(<<171, 0, 255>>, n, 0) : n \in BoundarySizes(T.size)} ELSE {})

OidValues == { <<1,2>>, <<0,0>>, <<0,39>>, <<1,39,127,128>>, <<2,999,3>>, <<1,2,840,113549>>,
               <<2,100,16383,16384,2147483647>>, <<2,40>>, <<2,47,0>>,
               <<1,3,6,1,4,1,9363,1,5,1,10>>, <<1,3,6,1,4,1,9363,1,5,1,10,11,12>>,        \* 11 and 13 arcs
               [i \in 1..45 |-> IF i = 1 THEN 2 ELSE i] }                                 \* 45 arcs
RelOidValues == { <<0>>, <<127,128>>, <<8571,3,2>>, <<2147483647>>, <<1,2,3,4,5,6,7,8,9,10>>, [i \in 1..12 |-> i], [i \in 1..45 |-> 100 + i] }


RECURSIVE Values(_, _, _)
Values(env, T0, d) ==
  LET T == Resolve(env, T0) IN
  CASE T.k = "BOOLEAN" -> {TRUE, FALSE}
    [] T.k = "NULL" -> {VNull}
    [] T.k = "INTEGER" -> IntValues(T.c)
    [] T.k = "ENUM" -> {(T.root \o T.adds)[i].v : i \in DOMAIN (T.root \o T.adds)}
    [] T.k = "REAL" -> Doubles
    [] T.k = "BITS" -> BitsValues(T, 20)
    [] T.k = "OCTETS" -> OctetsValues(T, 20)
    [] T.k = "STRING" -> StringValues(T, 20)
    [] T.k = "OID" -> OidValues
    [] T.k = "RELOID" -> RelOidValues
    [] IsIoSeq(T) ->
         \* identifier and open type value agree with one row of the object set
         LET rows == T.comps[2].t.comps
         IN UNION {{<<Pres(IdVal(rows[i])), Pres(MkAlt(rows[i].n, x))>> : x \in Take(Values(env, rows[i].t, 2), 5)} : i \in DOMAIN rows}
            \cup (IF T.comps[2].o = "O" THEN {<<Pres(IdVal(rows[i])), <<>>>> : i \in DOMAIN rows} ELSE {})
    [] T.k \in {"SEQUENCE", "SET"} /\ ~IsIoSeq(T) ->
         IF d = 0 THEN {} ELSE
         LET cs == AllComps(T)
             isAdd(i) == i > Len(T.comps)
             optional(i) == cs[i].o # "M" \/ isAdd(i)
             vals == [i \in DOMAIN cs |-> Values(env, cs[i].t, d - 1)]
             usable == {i \in DOMAIN cs : vals[i] # {}}
             base == [i \in usable |-> CHOOSE x \in vals[i] : TRUE]
             mk(S, f) == [i \in DOMAIN cs |-> IF i \in S THEN Pres(f[i]) ELSE Absent]
             mand == {i \in DOMAIN cs : ~optional(i)}
             opt == {j \in usable : optional(j)}
         IN IF ~(mand \subseteq usable) THEN {}
            ELSE {mk(usable, base), mk(mand, base)}
                 \cup UNION {{mk(usable, [base EXCEPT ![i] = x]) : x \in Spread(vals[i], 12)} : i \in usable}
                 \cup {mk(usable \ {i}, base) : i \in opt}
                 \cup {mk(mand \cup {i}, base) : i \in opt}
                 \cup {mk(usable, [base EXCEPT ![i] = cs[i].d]) : i \in {j \in usable : cs[j].o = "D"}}
                 \cup {mk(mand \cup {i}, [base EXCEPT ![i] = cs[i].d]) : i \in {j \in usable : cs[j].o = "D"}}
    [] T.k = "CHOICE" ->
         IF d = 0 THEN {} ELSE
         LET cs == AllComps(T)
         IN UNION {{MkAlt(cs[i].n, x) : x \in Spread(Values(env, cs[i].t, d - 1), 8)} : i \in DOMAIN cs}
    [] T.k \in {"SEQOF", "SETOF"} ->
         \* (elements of a CHOICE type: spread over its alternatives; other element types: the six smallest values)
         LET ev == IF d = 0 THEN <<>>
                   ELSE IF Resolve(env, T.t).k = "CHOICE" THEN SetSeq(Spread(Values(env, T.t, d - 1), 6))
                   ELSE SetSeq(Take(Values(env, T.t, d - 1), 6))
             \* lists of leaf elements also at the lengths where a length / count field changes its form
             sizes == SizeSamples(T.size, 4)
                      \cup (IF T.k = "SEQOF" /\ T.size.op = "none" /\ Resolve(env, T.t).k \in {"BOOLEAN", "NULL", "ENUM"} THEN {127, 128, 129} ELSE {})
         IN IF ev = <<>> THEN (IF 0 \in sizes THEN {<<>>} ELSE {})
            ELSE UNION {{Cyc(ev, n, 0), Cyc(Rev(ev), n, 0), Cyc(ev, n, 1), Cyc(<<ev[Len(ev)]>>, n, 0)} : n \in sizes}

\* ---- values that violate exactly one constraint at one position (C07, C08) -----
\* Only what a C structure can hold; sizes are kept small.
FarInts == {I(-1), I(-129), I(256), I(65536), IDec(Int32Min), IPow2(31), IPow2(32), IDec(IPow2(63)), INeg(IPow2(63)),
            IPow2(200), INeg(IPow2(167))}
\* (extensible constraints are outside C08: no corruption is derived from them)
BadInts(c) == IF Eff(c).ext THEN {}
              ELSE {x \in NearBounds(Eff(c)) \cup FarInts : ~Sat(c, x, BMin, BMax) /\ Representable(c, x)}
BadSizes(c, cap) == IF EffSize(c).ext THEN {}
                    ELSE {IToInt(x) : x \in {y \in NearBounds(EffSize(c)) : ~y.neg /\ ILe(y, I(cap)) /\ ~Sat(c, y, BI(0), BMax)}}
OutsideChar(T) == CHOOSE ch \in {126, 127, 33, 64, 122, 48, 32, 255} : ~InAlphabet(T, ch) /\ (T.st \in {"BMP", "Universal", "UTF8"} \/ ch < 256)
HasOutsideChar(T) == \E ch \in {126, 127, 33, 64, 122, 48, 32, 255} : ~InAlphabet(T, ch) /\ (T.st \in {"BMP", "Universal", "UTF8"} \/ ch < 256)

RECURSIVE Corruptions(_, _, _)
Corruptions(env, T0, v) ==
  LET T == Resolve(env, T0) IN
  CASE T.k = "INTEGER" -> BadInts(T.c)
    [] T.k = "BITS" -> {[n |-> n, o |-> PackRight(BitPattern(n, "ones"))] : n \in BadSizes(T.size, 40)}
    [] T.k = "OCTETS" -> {Cyc(<<171>>, n, 0) : n \in BadSizes(T.size, 40)}
    [] T.k = "STRING" ->
         IF T.st \in {"UTCTime", "GeneralizedTime"} THEN {}
         ELSE {Cyc(CharSamples(T), n, 0) : n \in BadSizes(T.size, 40)}
              \cup (IF v # <<>> /\ HasOutsideChar(T)
                    THEN {[v EXCEPT ![i] = OutsideChar(T)] : i \in {1, Len(v)}} ELSE {})
    [] T.k \in {"SEQUENCE", "SET"} /\ ~IsIoSeq(T) ->
         LET cs == AllComps(T)
         IN UNION {{[v EXCEPT ![i] = Pres(x)] : x \in Take(Corruptions(env, cs[i].t, v[i][1]), 4)} : i \in {j \in DOMAIN cs : IsPres(v[j])}}
    [] IsIoSeq(T) -> {}
    [] T.k = "CHOICE" -> {MkAlt(AltOf(v), x) : x \in Take(Corruptions(env, CompByName(T, AltOf(v)).t, AltVal(v)), 4)}
    [] T.k \in {"SEQOF", "SETOF"} ->
         (IF v = <<>> THEN {} ELSE {Cyc(v, n, 0) : n \in BadSizes(T.size, 12)})
         \cup UNION {{[v EXCEPT ![i] = x] : x \in Take(Corruptions(env, T.t, v[i]), 3)} : i \in DOMAIN v}
    [] OTHER -> {}
\* ---- C18: values violating the component relation constraint ---------------------------------
\* <<kind, value>>: the identifier replaced by a value that has no row in the object set ("ioc-norow") or by
\* the identifier of another row ("ioc-mismatch"); the open type value stays what it was.  These are not
\* values of the type; their encodings (the encoders do not look at the pairing) are decoder inputs.
UnknownIds(rows) ==
  IF OidRows(rows) THEN {<<1, 2>>, <<2, 999, 1>>, rows[1].oid \o <<1>>, SubSeq(rows[1].oid, 1, Len(rows[1].oid) - 1)} \ {rows[i].oid : i \in DOMAIN rows}
  ELSE {IOfInt(x) : x \in {0, 4242, -7, 65536} \ {rows[i].id : i \in DOMAIN rows}}
RECURSIVE IocCorruptions(_, _, _)
IocCorruptions(env, T0, v) ==
  LET T == Resolve(env, T0) IN
  CASE IsIoSeq(T) ->
         LET rows == IoRows(T) IN
         IF ~IsPres(v[2]) THEN {} ELSE
         {<<"ioc-norow", <<Pres(u), v[2]>>>> : u \in UnknownIds(rows)}
         \cup {<<"ioc-mismatch", <<Pres(IdVal(rows[j])), v[2]>>>> : j \in {i \in DOMAIN rows : rows[i].n # AltOf(v[2][1])}}
    [] T.k \in {"SEQUENCE", "SET"} ->
         LET cs == AllComps(T)
         IN UNION {{<<x[1], [v EXCEPT ![i] = Pres(x[2])]>> : x \in IocCorruptions(env, cs[i].t, v[i][1])} : i \in {j \in DOMAIN cs : IsPres(v[j])}}
    [] T.k \in {"SEQOF", "SETOF"} ->
         UNION {{<<x[1], [v EXCEPT ![i] = x[2]]>> : x \in IocCorruptions(env, T.t, v[i])} : i \in DOMAIN v}
    [] OTHER -> {}
\* ---- values of the TYPE that the C representation cannot hold (C04 / C14) -----------------------
\* An unconstrained or semi-constrained INTEGER has values beyond long / unsigned long; their encodings are
\* valid encodings of the type, and a decoder built on the native representation must refuse them cleanly.
\* <<value with one INTEGER leaf replaced>>
UnrepresentableInts(c) ==
  {x \in {IPow2(63), IPow2(64), IInc(IPow2(64)), IDec(INeg(IPow2(63))), IPow2(127), INeg(IPow2(71))} :
      ~Representable(c, x) /\ Sat(c, x, BMin, BMax)}
RECURSIVE Overflows(_, _, _)
Overflows(env, T0, v) ==
  LET T == Resolve(env, T0) IN
  CASE T.k = "INTEGER" -> UnrepresentableInts(T.c)
    [] T.k \in {"SEQUENCE", "SET"} /\ ~IsIoSeq(T) ->
         LET cs == AllComps(T)
         IN UNION {{[v EXCEPT ![i] = Pres(x)] : x \in Take(Overflows(env, cs[i].t, v[i][1]), 2)} : i \in {j \in DOMAIN cs : IsPres(v[j])}}
    [] T.k = "CHOICE" -> {MkAlt(AltOf(v), x) : x \in Take(Overflows(env, CompByName(T, AltOf(v)).t, AltVal(v)), 2)}
    [] T.k \in {"SEQOF", "SETOF"} -> UNION {{[v EXCEPT ![i] = x] : x \in Take(Overflows(env, T.t, v[i]), 1)} : i \in DOMAIN v}
    [] OTHER -> {}
=============================================================================
