------------------------------- MODULE MC_Tlv -------------------------------
(***************************************************************************)
(* C20: untyped BER as TLV forests.  Ser(forest) is the octet string,      *)
(* Fields(forest) what `unber -p` must print for it (offset, tag, length   *)
(* of the tag+length octets, length of the value or Indefinite, per node   *)
(* in document order); the model-level invariant relates the two (offsets  *)
(* are those of a parse of Ser).  The tools as actions:                    *)
(*    Unber : octets -> text whose fields are Fields(forest)               *)
(*    Enber : that text -> the same octets                                 *)
(* and on arbitrary (mutated) octets unber must end by exit.               *)
(***************************************************************************)
EXTENDS BER, Values, Json, IOUtils

CONSTANTS Rich

\* node: [cl, num, cons, lf, body]   lf: "min" | "pad1" | "indef" (constructed only)
PNode(cl, num, lf, octets) == [cl |-> cl, num |-> num, cons |-> FALSE, lf |-> lf, body |-> octets]
CNode(cl, num, lf, kids) == [cl |-> cl, num |-> num, cons |-> TRUE, lf |-> lf, body |-> kids]

LenOctets(lf, n) == CASE lf = "min" -> DerLen(n)
                      [] lf = "pad1" -> LET o == NatOfInt(n) IN <<128 + Len(o) + 1, 0>> \o o
                      [] lf = "indef" -> <<128>>
RECURSIVE SerNode(_)
SerNode(nd) ==
  LET body == IF nd.cons THEN ConcatAll([i \in DOMAIN nd.body |-> SerNode(nd.body[i])]) ELSE nd.body
  IN Ident(Tag(nd.cl, nd.num), nd.cons) \o LenOctets(nd.lf, Len(body)) \o body \o (IF nd.lf = "indef" THEN <<0, 0>> ELSE <<>>)
Ser(forest) == ConcatAll([i \in DOMAIN forest |-> SerNode(forest[i])])

TLLen(nd, blen) == Len(Ident(Tag(nd.cl, nd.num), nd.cons)) + Len(LenOctets(nd.lf, blen))
RECURSIVE FieldsNode(_, _)
\* returns the field records of nd and its descendants, nd starting at offset off
FieldsNode(nd, off) ==
  LET kidsSer == IF nd.cons THEN [i \in DOMAIN nd.body |-> SerNode(nd.body[i])] ELSE <<>>
      blen == IF nd.cons THEN Len(ConcatAll(kidsSer)) ELSE Len(nd.body)
      tl == TLLen(nd, blen)
      me == [o |-> off, cl |-> nd.cl, num |-> nd.num, form |-> IF ~nd.cons THEN "P" ELSE IF nd.lf = "indef" THEN "I" ELSE "C",
             tl |-> tl, v |-> IF nd.lf = "indef" THEN -1 ELSE blen]
      kidOff(i) == off + tl + Len(ConcatAll(SubSeq(kidsSer, 1, i - 1)))
  IN <<me>> \o (IF nd.cons THEN ConcatAll([i \in DOMAIN nd.body |-> FieldsNode(nd.body[i], kidOff(i))]) ELSE <<>>)
Fields(forest) ==
  LET sers == [i \in DOMAIN forest |-> SerNode(forest[i])]
  IN ConcatAll([i \in DOMAIN forest |-> FieldsNode(forest[i], Len(ConcatAll(SubSeq(sers, 1, i - 1))))])

\* ---- the forest universe ----------------------------------------------------------
PrimTags == {<<"U", 2>>, <<"U", 4>>, <<"C", 0>>, <<"C", 30>>, <<"C", 31>>, <<"A", 127>>, <<"A", 128>>, <<"P", 16383>>, <<"P", 16384>>}
ConsTags == {<<"U", 16>>, <<"U", 17>>, <<"C", 1>>, <<"A", 31>>, <<"P", 300>>}
\* "any tag class/number": every class x the tag numbers at which the identifier grows by an octet, up to the largest
\* number the tools' tag type holds (2^30 - 1: ber_tlv_tag_t keeps the class in the two low bits of 32)
EdgeNums == {0, 30, 31, 127, 128, 16383, 16384, 2097151, 2097152, 268435455, 268435456, 536870911, 536870912, 1073741823}
EdgeTagged == {PNode(c, n, "min", <<5>>) : c \in {"U", "A", "C", "P"}, n \in EdgeNums \ {0}}
              \cup {CNode(c, n, lf, <<PNode(c, n, "min", <<>>)>>) : c \in {"A", "C", "P"}, n \in EdgeNums, lf \in {"min", "indef"}}
Payloads == {<<>>, <<5>>, <<255, 0>>, Zeros(127), Zeros(128)} \cup (IF Rich THEN {Zeros(256), <<0, 0>>, <<128>>} ELSE {})
Prims == {PNode(t[1], t[2], lf, c) : t \in PrimTags, lf \in {"min"}, c \in Payloads}
         \cup {PNode("U", 4, "pad1", c) : c \in {<<>>, <<5>>, Zeros(128)}}
\* primitive values of the universal types that unber interprets when it pretty-prints (default mode, no -p):
\* well-formed contents and contents that are not values of the type
TypedPrims ==
  {PNode("U", 1, "min", c) : c \in {<<0>>, <<255>>, <<1, 2>>, <<>>}}
  \cup {PNode("U", 2, "min", c) : c \in {<<0>>, <<128>>, <<127, 255, 255, 255, 255, 255, 255, 255>>, <<1, 0, 0, 0, 0, 0, 0, 0, 0>>, <<>>}}
  \cup {PNode("U", 3, "min", c) : c \in {<<0>>, <<7, 128>>, <<8, 1>>, <<>>, <<0, 255, 255>>}}
  \cup {PNode("U", 5, "min", c) : c \in {<<>>, <<0>>}}
  \cup {PNode("U", 6, "min", c) : c \in {<<85, 4, 3>>, <<43, 14, 3, 2, 26>>, <<42, 134, 72, 134, 247, 13, 1, 1, 11>>, <<42>>, <<>>, <<128, 1>>, <<85, 129>>,
                                         <<43, 6, 1, 4, 1, 1, 1, 1, 1, 1>>, <<255, 255, 255, 255, 255, 255, 255, 255, 255, 127>>, <<136, 55>>}}
  \cup {PNode("U", 13, "min", c) : c \in {<<1, 2, 3>>, <<>>, <<129>>, <<200, 60, 3>>}}
  \cup {PNode("U", 9, "min", c) : c \in {<<>>, <<64>>, <<128, 0, 1>>, <<3, 49, 46, 69, 48>>, <<131, 2, 252, 2, 1>>, <<128>>}}
  \cup {PNode("U", 10, "min", c) : c \in {<<5>>, <<>>}}
  \cup {PNode("U", n, "min", c) : n \in {12, 19, 22, 26}, c \in {<<72, 105>>, <<>>, <<255, 254>>, <<60, 38, 62>>}}
  \cup {PNode("U", 23, "min", c) : c \in {<<48, 49, 48, 50, 48, 51, 48, 52, 48, 53, 48, 54, 90>>, <<48, 49, 48, 50, 48, 51, 48, 52, 48, 53, 90>>, <<90>>, <<>>}}
  \cup {PNode("U", 24, "min", c) : c \in {<<50, 48, 48, 49, 48, 50, 48, 51, 48, 52, 48, 53, 48, 54, 46, 53, 90>>, <<50, 48, 48, 49, 48, 50, 48, 51, 48, 52>>, <<50, 48>>, <<>>}}
  \cup {PNode("U", 30, "min", c) : c \in {<<0, 72, 0, 105>>, <<0>>, <<>>}}
  \cup {PNode("U", 28, "min", c) : c \in {<<0, 0, 0, 72>>, <<0, 0, 1>>}}
SomePrims == {PNode("U", 2, "min", <<5>>), PNode("C", 31, "min", <<>>), PNode("U", 4, "min", <<255, 0>>)}
              \cup (IF Rich THEN {PNode("P", 16384, "min", Zeros(127)), PNode("U", 4, "pad1", <<5>>)} ELSE {})
KidSeqs(S) == {<<>>} \cup {<<a>> : a \in S} \cup {<<a, b>> : a \in S, b \in S}
D1 == {CNode(t[1], t[2], lf, k) : t \in ConsTags, lf \in {"min", "indef", "pad1"}, k \in KidSeqs(SomePrims)}
SomeD1 == {CNode("U", 16, "indef", <<PNode("U", 2, "min", <<5>>)>>), CNode("C", 1, "min", <<>>), CNode("U", 17, "indef", <<>>),
           CNode("A", 31, "min", <<PNode("C", 31, "min", <<>>), PNode("U", 4, "min", <<255, 0>>)>>)}
D2 == {CNode(t[1], t[2], lf, k) : t \in {<<"U", 16>>, <<"C", 1>>}, lf \in {"min", "indef"}, k \in KidSeqs(SomeD1 \cup {PNode("U", 2, "min", <<5>>)})}
D3 == {CNode("U", 16, lf, <<x>>) : lf \in {"min", "indef"}, x \in {CNode("C", 1, l2, <<y>>) : l2 \in {"min", "indef"}, y \in SomeD1}}
\* long primitives followed by siblings: the printed line length sweeps over every residue of the tools' I/O chunk size
LongSweep == IF Rich THEN {<<CNode("U", 16, "min", <<PNode("U", 4, "min", Zeros(n)), PNode("U", 2, "min", <<5>>), PNode("U", 5, "min", <<>>)>>)>> : n \in 1300..2800}
             ELSE {<<CNode("U", 16, "min", <<PNode("U", 4, "min", Zeros(n)), PNode("U", 2, "min", <<5>>)>>)>> : n \in {1364, 1365, 1366, 2719, 2730}}
Forests == {<<n>> : n \in Prims \cup D1 \cup D2 \cup D3 \cup TypedPrims \cup EdgeTagged}
           \cup {<<CNode("U", 16, lf, <<a, PNode("U", 5, "min", <<>>)>>)>> : a \in TypedPrims, lf \in {"min", "indef"}}
           \cup {<<a, b>> : a \in SomeD1 \cup SomePrims, b \in SomeD1 \cup SomePrims}
           \cup LongSweep

Byte(x) == x % 256
MutPositions(b) == IF Len(b) <= 12 THEN DOMAIN b ELSE (1..8) \cup ((Len(b) - 3)..Len(b))
Mutants(b) == {SubSeq(b, 1, k) : k \in 0..(IF Len(b) <= 24 THEN Len(b) - 1 ELSE 12)}
              \cup UNION {{[b EXCEPT ![i] = x] : x \in {0, 1, 31, 127, 128, 129, 255, Byte(b[i] + 1)} \ {b[i]}} : i \in MutPositions(b)}

\* ---- over-long tag / length fields (closed forms) ------------------------------------
\* a TL can be made arbitrarily long without being malformed octet-wise: a high tag number with k leading 0x80 groups,
\* a long-form length with k leading zero octets.  The tools bound the TL they accept; wherever the element sits
\* (top level, inside a definite-length or an indefinite-length parent, with much or little of the parent left)
\* the answer must be a diagnostic or success, never a memory error.
PadTag(k) == <<95>> \o [i \in 1..k |-> 128] \o <<5, 1, 7>>                     \* [APPLICATION 5], k padding groups
PadLen(k) == <<4, 128 + k>> \o Zeros(k - 1) \o <<1, 7>>                         \* OCTET STRING, k length octets
PadKs == {1, 2, 3, 4, 5, 6, 7, 8, 9, 14, 15, 16, 17, 28, 29, 30, 31, 32, 33, 34, 35, 40, 60, 100, 126}
Filler(n) == <<4>> \o DerLen(n) \o Zeros(n)
InDef(x, tail) == <<48>> \o DerLen(Len(x) + Len(tail)) \o x \o tail
InIndef(x) == <<48, 128>> \o x \o <<0, 0>>
PadInputs ==
  LET xs == {PadTag(k) : k \in PadKs} \cup {PadLen(k) : k \in PadKs}
  IN xs \cup {InDef(x, t) : x \in xs, t \in {<<>>, Filler(0), Filler(40), Filler(200)}}
        \cup {InIndef(x) : x \in xs}
        \cup {InDef(InIndef(x), t) : x \in xs, t \in {<<>>, Filler(60)}}
        \cup {InIndef(InDef(x, Filler(60))) : x \in xs}
        \cup {InDef(Filler(3) \o x, Filler(50)) : x \in xs}

VARIABLES forest, mode, l
Init == /\ mode \in {"roundtrip", "mutate", "pad"} /\ l = 0
        /\ forest \in (IF mode = "pad" THEN {<<>>} ELSE Forests)
        /\ (mode = "mutate" => forest \notin LongSweep)
Next == FALSE /\ UNCHANGED <<forest, mode, l>>
\* model-level: the first field record starts at 0, offsets increase, and every record lies within the octets
FieldsSound == mode = "pad" \/ LET f == Fields(forest) s == Ser(forest) IN
               /\ f[1].o = 0
               /\ \A i \in DOMAIN f : f[i].o + f[i].tl <= Len(s) /\ (i > 1 => f[i].o > f[i - 1].o)
               /\ \A i \in DOMAIN f : f[i].v >= 0 => f[i].o + f[i].tl + f[i].v <= Len(s)
Export ==
  IF mode = "roundtrip" THEN PrintT(<<"SCN", ToJson([mode |-> mode, bytes |-> Ser(forest), fields |-> Fields(forest),
                                                     padded |-> \E i \in DOMAIN Fields(forest) : FALSE])>>)
  ELSE IF mode = "pad" THEN \A m \in PadInputs : PrintT(<<"SCN", ToJson([mode |-> mode, bytes |-> m])>>)
  ELSE \A m \in Mutants(Ser(forest)) : PrintT(<<"SCN", ToJson([mode |-> mode, bytes |-> m])>>)

\* ---- judge ------------------------------------------------------------------------
Scn == ndJsonDeserialize(IOEnv.VERIF_SCENARIOS)
Log == ndJsonDeserialize(IOEnv.VERIF_TRACE)
When(c, name) == IF c THEN {name} ELSE {}
Ev == Log[l]
TFaults(sc, ev) ==
  IF sc.mode \in {"mutate", "pad"}
  THEN When(ev.unber_signal # 0, "unber-died") \cup When(ev.unber_signal = 0 /\ ev.unber_exit # 0 /\ ~ev.unber_diag, "failure-without-diagnostic")
       \cup When(ev.pretty_signal # 0, "unber-died-pretty-printing")
  ELSE When(ev.unber_signal # 0, "unber-died")
       \* default mode (values of known universal types are interpreted): the same TLV structure, so it ends by exit 0 too
       \cup When(ev.pretty_signal # 0, "unber-died-pretty-printing")
       \cup When(ev.pretty_signal = 0 /\ ev.pretty_exit # 0, "well-formed-input-rejected-pretty-printing")
       \cup When(ev.unber_signal = 0 /\ ev.unber_exit # 0, "well-formed-input-rejected")
       \cup When(ev.unber_exit = 0 /\ ev.fields # sc.fields, "printed-fields-differ")
       \cup When(ev.unber_exit = 0 /\ ev.enber_signal # 0, "enber-died")
       \cup When(ev.unber_exit = 0 /\ ev.enber_signal = 0 /\ (ev.enber_exit # 0 \/ ev.enber_bytes # sc.bytes), "enber-does-not-reproduce-input")
TInit == l = 1 /\ forest = <<>> /\ mode = ""
TStep == /\ l <= Len(Log)
         /\ LET f == TFaults(Scn[Ev.id], Ev) IN
              f # {} => PrintT(<<"MISMATCH", ToJson([id |-> Ev.id, i |-> 1, l |-> l, reasons |-> SetSeq(f)])>>)
         /\ l' = l + 1 /\ UNCHANGED <<forest, mode>>
TNext == TStep
TraceAccepted == TLCGet("stats").diameter - 1 = Len(Log)
=============================================================================
