---------------------------- MODULE MC_Pipeline ----------------------------
(***************************************************************************)
(* C10: asn1c as a pipeline state machine                                  *)
(*    idle --Asn1c--> emitted | rejected ; emitted --CC--> compiled        *)
(*    --CXX--> headers-ok --Link--> linked --Descr--> consistent           *)
(* A run is (source module, option set).  TLC enumerates the runs; the     *)
(* glue performs each on the compiler built from the working tree and the  *)
(* trace specification accepts it only if: asn1c ended by exit (never a    *)
(* signal), a non-zero exit came with a diagnostic, and after exit 0 every *)
(* later stage succeeded.                                                  *)
(***************************************************************************)
EXTENDS Naturals, Sequences, FiniteSets, TLC, Json, IOUtils

CONSTANTS Sources,      \* ids of source modules (universe modules and fault-injected ones)
          Options,      \* the documented code-generation options
          AllSubsets    \* thorough: every subset of Options; quick: none, each alone, every pair, all

VARIABLES run, stage, l
pvars == <<run, stage, l>>

RECURSIVE SetSeqP(_)
SetSeqP(S) == IF S = {} THEN <<>> ELSE LET x == CHOOSE y \in S : TRUE IN <<x>> \o SetSeqP(S \ {x})
OptionSets == IF AllSubsets THEN SUBSET Options
              ELSE {{}} \cup {{o} : o \in Options} \cup {{o1, o2} : o1 \in Options, o2 \in Options} \cup {Options}

Init == /\ \E s \in Sources : \E os \in OptionSets : run = [src |-> s, opts |-> SetSeqP(os)]
        /\ stage = "idle" /\ l = 0
Stages == <<"idle", "emitted", "compiled", "headers-ok", "linked", "consistent">>
Advance == /\ stage # "consistent" /\ stage # "rejected"
           /\ \/ stage' = Stages[(CHOOSE i \in 1..5 : Stages[i] = stage) + 1]
              \/ stage = "idle" /\ stage' = "rejected"
           /\ UNCHANGED <<run, l>>
Next == Advance
Export == stage = "idle" => PrintT(<<"SCN", ToJson(run)>>)
TypeOK == stage \in {"idle", "emitted", "rejected", "compiled", "headers-ok", "linked", "consistent"}

\* ---- judge ------------------------------------------------------------------------
Scn == ndJsonDeserialize(IOEnv.VERIF_SCENARIOS)
Log == ndJsonDeserialize(IOEnv.VERIF_TRACE)
When(c, name) == IF c THEN {name} ELSE {}
Ev == Log[l]
\* the stage an event leads to, and what is wrong with it
After(ev) == CASE ev.a = "Asn1c" -> IF ev.signal = 0 /\ ev.exit = 0 THEN "emitted" ELSE "rejected"
               [] ev.a = "CC" -> "compiled" [] ev.a = "CXX" -> "headers-ok" [] ev.a = "Link" -> "linked" [] ev.a = "Descr" -> "consistent"
Before(ev) == CASE ev.a = "Asn1c" -> "idle" [] ev.a = "CC" -> "emitted" [] ev.a = "CXX" -> "compiled"
                [] ev.a = "Link" -> "headers-ok" [] ev.a = "Descr" -> "linked"
PFaults(ev) ==
  CASE ev.a = "Asn1c" -> When(ev.signal # 0, "compiler-died") \cup When(ev.signal = 0 /\ ev.exit # 0 /\ ~ev.diag, "rejected-without-diagnostic")
    [] ev.a = "CC" -> When(ev.status # 0, "generated-code-does-not-compile")
    [] ev.a = "CXX" -> When(ev.status # 0, "headers-not-c++-compatible")
    [] ev.a = "Link" -> When(ev.status # 0, "generated-code-does-not-link")
    [] ev.a = "Descr" -> When(~ev.ok, "descriptors-inconsistent")
    [] OTHER -> {"unknown-event"}
TInit == l = 1 /\ stage = "idle" /\ run = [src |-> "", opts |-> <<>>]
\* every event is a pipeline step of its run; the first event of a run resets the stage
TStep == /\ l <= Len(Log)
         /\ LET st == IF Ev.a = "Asn1c" THEN "idle" ELSE stage
                f == PFaults(Ev) \cup When(st # Before(Ev), "stage-out-of-order")
            IN /\ f # {} => PrintT(<<"MISMATCH", ToJson([id |-> Ev.id, i |-> 1, l |-> l, reasons |-> SetSeqP(f)])>>)
               /\ stage' = IF f = {} THEN After(Ev) ELSE "rejected"
         /\ run' = Scn[Ev.id] /\ l' = l + 1
TNext == TStep
TraceAccepted == TLCGet("stats").diameter - 1 = Len(Log)
=============================================================================
