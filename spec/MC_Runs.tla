------------------------------ MODULE MC_Runs ------------------------------
(***************************************************************************)
(* C12: the compiler as a FUNCTION of its input.  The history variable     *)
(* known maps an abstract input key to the digest first observed for it;   *)
(* every later run with the same key must reproduce the digest.  Keys:     *)
(*   all:<file order>      everything written for exactly this invocation  *)
(*                         (same input, same output, any run)              *)
(*   types:<set of files>  the per-type .c/.h files, which must not depend *)
(*                         on the order of the files on the command line   *)
(*   text:<file>           the module text printed by -E; printing the     *)
(*                         printed text again has the same key (fixpoint)  *)
(* Compiling the printed text has the key types:<file> of the original     *)
(* (same generated code; only claimed for non-parameterized modules).      *)
(* TLC enumerates the run schedules (repeats, all permutations of up to 3  *)
(* files, one or two print cycles); the judge replays the recorded runs.   *)
(***************************************************************************)
EXTENDS Naturals, Sequences, FiniteSets, TLC, Json, IOUtils, SequencesExt

CONSTANTS Singles,       \* module files handled one at a time
          Groups,        \* sets of module files compiled together, in every order
          Plain          \* the files without parameterized types (same-code clause)

VARIABLES sched, l, known
rvars == <<sched, l, known>>

RECURSIVE SetSeqR(_)
SetSeqR(S) == IF S = {} THEN <<>> ELSE LET x == CHOOSE y \in S : TRUE IN <<x>> \o SetSeqR(S \ {x})
Perms(S) == {p \in [1..Cardinality(S) -> S] : \A i, j \in 1..Cardinality(S) : i # j => p[i] # p[j]}

OpCompile(order) == [a |-> "Compile", order |-> order]
OpPrint(f, n) == [a |-> "Print", file |-> f, n |-> n]                 \* n-th application of -E
OpCompilePrinted(f) == [a |-> "CompilePrinted", file |-> f]

Schedules ==
  {<<OpCompile(<<f>>), OpCompile(<<f>>), OpPrint(f, 1), OpPrint(f, 2)>> \o (IF f \in Plain THEN <<OpCompilePrinted(f)>> ELSE <<>>) : f \in Singles}
  \cup UNION {{<<OpCompile(p)>> : p \in Perms(g)} : g \in Groups}

Init == sched \in Schedules /\ l = 0 /\ known = <<>>
Next == FALSE /\ UNCHANGED rvars
Export == PrintT(<<"SCN", ToJson([plan |-> sched])>>)

\* ---- judge: the function-consistency monitor ---------------------------------------
Scn == ndJsonDeserialize(IOEnv.VERIF_SCENARIOS)
Log == ndJsonDeserialize(IOEnv.VERIF_TRACE)
Ev == Log[l]
\* known is kept as a sequence of [key, digest] pairs (keys are strings computed by the glue
\* from the operation: all:<order>, types:<sorted set>, text:<file>)
Lookup(k) == LET hits == {i \in DOMAIN known : known[i].key = k} IN IF hits = {} THEN "" ELSE known[CHOOSE i \in hits : TRUE].digest
TInit == l = 1 /\ known = <<>> /\ sched = <<>>
\* one event may carry several observations (a compile yields an all: and a types: digest)
RECURSIVE Fold(_, _, _)
Fold(obs, kn, bad) ==
  IF obs = <<>> THEN [kn |-> kn, bad |-> bad]
  ELSE LET o == Head(obs)
           hits == {i \in DOMAIN kn : kn[i].key = o.key}
       IN IF hits = {} THEN Fold(Tail(obs), Append(kn, [key |-> o.key, digest |-> o.digest]), bad)
          ELSE IF kn[CHOOSE i \in hits : TRUE].digest = o.digest THEN Fold(Tail(obs), kn, bad)
          ELSE Fold(Tail(obs), kn, bad \cup {o.why})
TStep == /\ l <= Len(Log)
         /\ LET r == Fold(Ev.obs, known, IF Ev.signal # 0 THEN {"compiler-died"} ELSE {}) IN
            /\ r.bad # {} => PrintT(<<"MISMATCH", ToJson([id |-> Ev.id, i |-> Ev.i, l |-> l, reasons |-> SetSeqR(r.bad)])>>)
            /\ known' = r.kn
         /\ l' = l + 1 /\ UNCHANGED sched
TNext == TStep
\* the monitor's own invariant: one digest per key
Functional == \A i, j \in DOMAIN known : known[i].key = known[j].key => i = j
TraceAccepted == TLCGet("stats").diameter - 1 = Len(Log)
=============================================================================
