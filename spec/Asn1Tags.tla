------------------------------ MODULE Asn1Tags ------------------------------
(***************************************************************************)
(* Tagging: universal tags (X.680 clause 8), the module tagging default,   *)
(* the AUTOMATIC TAGS transformation (X.680 25.7-25.9, 27.3, 29.2-29.5),   *)
(* the IMPLICIT-on-CHOICE rule (31.2.7), outermost tag sets, the canonical *)
(* tag order (X.680 8.6), and the tag-distinctness legality rules          *)
(* (X.680 25.6, 27.3, 29.3) that C11 relies on.                            *)
(***************************************************************************)
EXTENDS Asn1Types

Tag(cl, num) == [cl |-> cl, num |-> num]

UniversalNum(T) ==
  CASE T.k = "BOOLEAN" -> 1 [] T.k = "INTEGER" -> 2 [] T.k = "BITS" -> 3 [] T.k = "OCTETS" -> 4
    [] T.k = "NULL" -> 5 [] T.k = "OID" -> 6 [] T.k = "REAL" -> 9 [] T.k = "ENUM" -> 10
    [] T.k = "RELOID" -> 13 [] T.k \in {"SEQUENCE", "SEQOF"} -> 16 [] T.k \in {"SET", "SETOF"} -> 17
    [] T.k = "STRING" ->
         (CASE T.st = "UTF8" -> 12 [] T.st = "Numeric" -> 18 [] T.st = "Printable" -> 19
            [] T.st = "IA5" -> 22 [] T.st = "UTCTime" -> 23 [] T.st = "GeneralizedTime" -> 24
            [] T.st = "Visible" -> 26 [] T.st = "Universal" -> 28 [] T.st = "BMP" -> 30)
UniversalTag(T) == Tag("U", UniversalNum(T))

ClassRank(cl) == CASE cl = "U" -> 0 [] cl = "A" -> 1 [] cl = "C" -> 2 [] cl = "P" -> 3
TagLess(a, b) == \/ ClassRank(a.cl) < ClassRank(b.cl)
                 \/ (a.cl = b.cl /\ a.num < b.num)

\* ---- normalisation: resolve tagging modes ----------------------------------
\* Does T (looking through references, not through tags) denote an untagged CHOICE?
IsUntaggedChoice(env, T) == ChoiceLike(Deref(env, T).k)      \* (an open type is tagged EXPLICITly like a CHOICE)

HasTaggedRoot(T) == \E i \in DOMAIN T.comps : T.comps[i].t.k = "TAGGED"

RECURSIVE NormT(_, _, _)
NormComps(env, tagging, cs, auto, base) ==
  [i \in DOMAIN cs |->
     LET c == cs[i]
         t1 == IF auto THEN TTag("C", base + i - 1, "D", c.t) ELSE c.t
     IN [c EXCEPT !.t = NormT(env, tagging, t1)]]
NormT(env, tagging, T) ==
  CASE T.k = "TAGGED" ->
         LET m0 == IF T.mode = "D" THEN (IF tagging = "EXPLICIT" THEN "E" ELSE "I") ELSE T.mode
             m == IF m0 = "I" /\ IsUntaggedChoice(env, T.t) THEN "E" ELSE m0
         IN [T EXCEPT !.mode = m, !.t = NormT(env, tagging, T.t)]
    [] T.k \in {"SEQUENCE", "SET", "CHOICE"} ->
         LET auto == tagging = "AUTOMATIC" /\ ~HasTaggedRoot(T)
         IN [T EXCEPT !.comps = NormComps(env, tagging, T.comps, auto, 0),
                      !.adds = NormComps(env, tagging, T.adds, auto, Len(T.comps))]
    [] T.k \in {"SEQOF", "SETOF"} -> [T EXCEPT !.t = NormT(env, tagging, T.t)]
    [] OTHER -> T

NormEnv(mod) == LET env == EnvOf(mod) IN [n \in DOMAIN env |-> NormT(env, mod.tagging, env[n])]

\* ---- outermost tags (on a normalised environment) --------------------------
RECURSIVE OuterTags(_, _)
OuterTags(env, T) ==
  CASE T.k = "TAGGED" -> {Tag(T.cl, T.num)}
    [] IsRef(T) -> OuterTags(env, env[T.n])
    [] ChoiceLike(T.k) -> UNION {OuterTags(env, AllComps(T)[i].t) : i \in DOMAIN AllComps(T)}
    [] OTHER -> {UniversalTag(T)}

\* the tag that the encoding of value v of type T actually starts with
RECURSIVE ValueTag(_, _, _)
ValueTag(env, T, v) ==
  CASE T.k = "TAGGED" -> Tag(T.cl, T.num)
    [] IsRef(T) -> ValueTag(env, env[T.n], v)
    [] ChoiceLike(T.k) -> ValueTag(env, CompByName(T, AltOf(v)).t, AltVal(v))
    [] OTHER -> UniversalTag(T)

MinTag(S) == CHOOSE t \in S : \A u \in S : u = t \/ TagLess(t, u)

\* positions of a sequence sorted by a key with a strict order; stable
SortedIdx(n, Less(_, _)) ==
  LET rank(i) == Cardinality({j \in 1..n : Less(j, i) \/ (~Less(i, j) /\ j < i)})
  IN [p \in 1..n |-> CHOOSE i \in 1..n : rank(i) = p - 1]

\* canonical order of the root components of a SET / alternatives of a CHOICE
CanonOrder(env, comps) ==
  SortedIdx(Len(comps), LAMBDA i, j : TagLess(MinTag(OuterTags(env, comps[i].t)),
                                               MinTag(OuterTags(env, comps[j].t))))

\* ---- legality: the distinctness rules C11 names (on a normalised environment) ---------------
Disjoint(S, T) == S \cap T = {}
PairwiseDistinct(env, ts) == \A i, j \in DOMAIN ts : i < j => Disjoint(OuterTags(env, ts[i]), OuterTags(env, ts[j]))
\* X.680 25.6 / 25.6.1: within every run of consecutive OPTIONAL / DEFAULT components together with the
\* component that follows the run (if any), the outermost tags are pairwise distinct
\* (an extension addition is absent in encodings of earlier versions, but then so are all additions after it: a
\* run is delimited by the OPTIONAL / DEFAULT marks alone, also across the extension marker)
SeqTagsOK(env, T) ==
  LET cs == AllComps(T)
      optional(i) == cs[i].o # "M"
  IN \A i, j \in DOMAIN cs :
        (i < j /\ \A k \in i..(j - 1) : optional(k)) => Disjoint(OuterTags(env, cs[i].t), OuterTags(env, cs[j].t))
IdentsOK(T) == LET cs == AllComps(T) IN \A i, j \in DOMAIN cs : i < j => cs[i].n # cs[j].n
EnumOK(T) == LET it == T.root \o T.adds IN \A i, j \in DOMAIN it : i < j => it[i].n # it[j].n /\ it[i].v # it[j].v
RECURSIVE RefsOK(_, _)
RefsOK(names, T) ==
  CASE IsRef(T) -> T.n \in names
    [] T.k = "TAGGED" -> RefsOK(names, T.t)
    [] T.k \in {"SEQUENCE", "SET", "CHOICE"} -> \A i \in DOMAIN AllComps(T) : RefsOK(names, AllComps(T)[i].t)
    [] T.k \in {"SEQOF", "SETOF"} -> RefsOK(names, T.t)
    [] OTHER -> TRUE
RECURSIVE TypeLegal(_, _)
TypeLegal(env, T) ==
  CASE T.k = "TAGGED" -> TypeLegal(env, T.t)
    [] T.k = "ENUM" -> EnumOK(T)
    [] T.k = "CHOICE" -> IdentsOK(T) /\ PairwiseDistinct(env, [i \in DOMAIN AllComps(T) |-> AllComps(T)[i].t])
                         /\ \A i \in DOMAIN AllComps(T) : TypeLegal(env, AllComps(T)[i].t)
    [] T.k = "SET" -> IdentsOK(T) /\ PairwiseDistinct(env, [i \in DOMAIN AllComps(T) |-> AllComps(T)[i].t])
                      /\ \A i \in DOMAIN AllComps(T) : TypeLegal(env, AllComps(T)[i].t)
    [] T.k = "SEQUENCE" -> IdentsOK(T) /\ SeqTagsOK(env, T) /\ \A i \in DOMAIN AllComps(T) : TypeLegal(env, AllComps(T)[i].t)
    [] T.k \in {"SEQOF", "SETOF"} -> TypeLegal(env, T.t)
    [] OTHER -> TRUE
\* a module is legal iff every reference resolves and every definition satisfies the rules
\* X.680 25.3 / 27.3 / 29.3 with their notes: whether automatic tagging applies is decided on the extension root;
\* when it applies (AUTOMATIC TAGS, no root component is a TaggedType) no extension addition may be a TaggedType
RECURSIVE AutoExtOK(_)
AutoExtOK(T) ==
  CASE T.k \in {"SEQUENCE", "SET", "CHOICE"} ->
         /\ ((\A i \in DOMAIN T.comps : T.comps[i].t.k # "TAGGED") => \A j \in DOMAIN T.adds : T.adds[j].t.k # "TAGGED")
         /\ \A i \in DOMAIN AllComps(T) : AutoExtOK(AllComps(T)[i].t)
    [] T.k \in {"SEQOF", "SETOF", "TAGGED"} -> AutoExtOK(T.t)
    [] OTHER -> TRUE
Legal(mod) ==
  LET raw == EnvOf(mod) names == DOMAIN raw
  IN /\ \A n \in names : RefsOK(names, raw[n])
     /\ (mod.tagging = "AUTOMATIC" => \A n \in names : AutoExtOK(raw[n]))
     /\ (LET env == NormEnv(mod) IN \A n \in names : TypeLegal(env, env[n]))

\* the same with the OPTIONAL-run rule of SEQUENCE not reaching across the extension marker (root and additions
\* checked separately): used only to delimit a recorded defect of asn1c, never as the verdict
SeqTagsOKSplit(env, T) ==
  LET cs == AllComps(T) nr == Len(T.comps)
      optional(i) == cs[i].o # "M"
  IN \A i, j \in DOMAIN cs :
        (i < j /\ ((i <= nr) = (j <= nr)) /\ \A k \in i..(j - 1) : optional(k)) => Disjoint(OuterTags(env, cs[i].t), OuterTags(env, cs[j].t))
RECURSIVE TypeLegalSplit(_, _)
TypeLegalSplit(env, T) ==
  CASE T.k = "SEQUENCE" -> IdentsOK(T) /\ SeqTagsOKSplit(env, T) /\ \A i \in DOMAIN AllComps(T) : TypeLegalSplit(env, AllComps(T)[i].t)
    [] T.k = "TAGGED" -> TypeLegalSplit(env, T.t)
    [] OTHER -> TypeLegal(env, T)
LegalSplit(mod) ==
  LET raw == EnvOf(mod) names == DOMAIN raw
  IN /\ \A n \in names : RefsOK(names, raw[n])
     /\ (mod.tagging = "AUTOMATIC" => \A n \in names : AutoExtOK(raw[n]))
     /\ (LET env == NormEnv(mod) IN \A n \in names : TypeLegalSplit(env, env[n]))
=============================================================================
