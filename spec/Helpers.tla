------------------------------ MODULE Helpers ------------------------------
(***************************************************************************)
(* The value-conversion helper APIs as relations between arguments and     *)
(* results (C16, C17):                                                     *)
(*   integers <-> INTEGER contents (X.690 8.3: minimal two's complement),  *)
(*   doubles  <-> REAL contents (X.690 8.5 / 11.3, see BER!RealContents),  *)
(*   decimal numerals -> integers of a given C type (accept iff in range), *)
(*   arc vectors <-> OBJECT IDENTIFIER contents (8.19) and dotted text,    *)
(*   time_t <-> GeneralizedTime / UTCTime text in forced-GMT form          *)
(*   (proleptic Gregorian calendar, canonical YYYYMMDDHHMMSS[.f]Z).        *)
(* Wide quantities are BigInts (TLC integers are 32 bit).                  *)
(***************************************************************************)
EXTENDS BER

\* ---- C integer types (LP64: long = intmax_t = 64 bit) ------------------------
CTypes == {"long", "ulong", "imax", "umax"}
Signed(ty) == ty \in {"long", "imax"}
Fits(ty, x) == IF Signed(ty) THEN FitsSigned(x, 8) ELSE FitsUnsigned(x, 8)

\* stored contents after asn_<ty>2INTEGER(x)
IntContents(x) == TwosC(x)

\* asn_INTEGER2<ty>(octets): [ok |-> TRUE, v |-> x] or [ok |-> FALSE] (ERANGE)
IntOfContents(ty, o) == LET x == OfTwosC(o) IN IF Fits(ty, x) THEN [ok |-> TRUE, v |-> x] ELSE [ok |-> FALSE]

\* ---- decimal numerals ----------------------------------------------------------
\* text: optional '-' and decimal digits (at least one); value as BigInt
RECURSIVE NatOfDigits(_, _)
NatOfDigits(ds, acc) == IF ds = <<>> THEN acc ELSE NatOfDigits(Tail(ds), NatAdd(NatMulSmall(acc, 10), NatOfInt(Head(ds) - 48)))
NumeralValue(txt) == IF Head(txt) = 45 THEN INorm(TRUE, NatOfDigits(Tail(txt), <<>>)) ELSE INorm(FALSE, NatOfDigits(txt, <<>>))
\* "OK" with the value, or "RANGE"
ParseNumeral(ty, txt) == LET x == NumeralValue(txt) IN IF Fits(ty, x) THEN [r |-> "OK", v |-> x] ELSE [r |-> "RANGE"]

\* ---- OBJECT IDENTIFIER ---------------------------------------------------------
\* arcs as naturals (big-endian octet magnitudes); 8.19.2: base 128, most significant first,
\* bit 8 set on all but the last octet, no leading 0x80
RECURSIVE Base128BigHi(_)
Base128BigHi(a) == IF a = <<>> THEN <<>>
                   ELSE LET dm == NatDivMod(a, 128) IN Base128BigHi(dm.q) \o <<128 + dm.r>>
Base128Big(a) == LET dm == NatDivMod(a, 128) IN Base128BigHi(dm.q) \o <<dm.r>>
\* 8.19.4: the first two arcs share one subidentifier 40 * a + b
FirstPairValid(a, b) == \/ (a \in {<<>>, <<1>>} /\ NatCmp(b, <<40>>) < 0)
                        \/ a = <<2>>
OidOctets(arcs) == Base128Big(NatAdd(NatMulSmall(arcs[1], 40), arcs[2]))
                   \o ConcatAll([i \in 1..(Len(arcs) - 2) |-> Base128Big(arcs[i + 2])])
ArcText(a) == IF a = <<>> THEN <<48>> ELSE [i \in 1..Len(NatDecimal(a)) |-> 48 + NatDecimal(a)[i]]
DottedText(arcs) == ConcatAll([i \in DOMAIN arcs |-> (IF i = 1 THEN <<>> ELSE <<46>>) \o ArcText(arcs[i])])

\* ---- time -----------------------------------------------------------------------
\* civil date of a day count since 1970-01-01 (proleptic Gregorian calendar)
FloorDiv(a, b) == IF a >= 0 THEN a \div b ELSE -((-a + b - 1) \div b)
Civil(days) ==
  LET z == days + 719468
      era == FloorDiv(z, 146097)
      doe == z - era * 146097
      yoe == (doe - doe \div 1460 + doe \div 36524 - doe \div 146096) \div 365
      doy == doe - (365 * yoe + yoe \div 4 - yoe \div 100)
      mp == (5 * doy + 2) \div 153
      d == doy - (153 * mp + 2) \div 5 + 1
      m == IF mp < 10 THEN mp + 3 ELSE mp - 9
      y == yoe + era * 400 + (IF m <= 2 THEN 1 ELSE 0)
  IN [y |-> y, m |-> m, d |-> d]
Digits(n, w) == [i \in 1..w |-> 48 + ((n \div (10 ^ (w - i))) % 10)]
\* canonical forced-GMT GeneralizedTime text of (days, second of day), optional fraction digits
GTText(days, sod, frac) ==
  LET c == Civil(days)
  IN Digits(c.y, 4) \o Digits(c.m, 2) \o Digits(c.d, 2) \o Digits(sod \div 3600, 2) \o Digits((sod \div 60) % 60, 2)
     \o Digits(sod % 60, 2) \o (IF frac = <<>> THEN <<>> ELSE <<46>> \o frac) \o <<90>>
UTText(days, sod) ==
  LET c == Civil(days)
  IN Digits(c.y % 100, 2) \o Digits(c.m, 2) \o Digits(c.d, 2) \o Digits(sod \div 3600, 2) \o Digits((sod \div 60) % 60, 2)
     \o Digits(sod % 60, 2) \o <<90>>
\* UTCTime has a two-digit year.  Which century a reader assumes is a convention (RFC 5280: 1950..2049;
\* asn1c: 1960..2059); the round trip is required inside the years on which the conventions agree,
\* the text itself wherever a two-digit year is unambiguous for one of them.
InUTWindow(days) == LET y == Civil(days).y IN y >= 1960 /\ y <= 2049
InUTTextWindow(days) == LET y == Civil(days).y IN y >= 1950 /\ y <= 2059
=============================================================================
