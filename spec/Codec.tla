------------------------------- MODULE Codec -------------------------------
(***************************************************************************)
(* The runtime API of a generated codec as a state machine over ONE        *)
(* structure session.  A session is about a type of the module and an      *)
(* abstract value; it owns a few structure slots, the last encoding per    *)
(* transfer syntax, and executes a plan (sequence of API operations).      *)
(* Each operation is a relation between the pre-state, the arguments and   *)
(* the observable result of the call; Expect* below are those relations.   *)
(* The same actions are used by the generator (MC_Gen: TLC enumerates the  *)
(* sessions and exports them) and by the judge (Trace_Codec: events        *)
(* recorded from the real library must be explained by these actions).     *)
(***************************************************************************)
EXTENDS Values

CONSTANT Mod             \* the module under test (raw, as written)

RawEnv == EnvOf(Mod)
Env == NormEnv(Mod)      \* tagging resolved; what the encoders work on

Syntaxes == {"DER"}
Enc(s, T, v) == CASE s = "DER" -> DER(Env, T, v)

Slots == 1..3
NoObj == [st |-> "none"]
Obj(v) == [st |-> "val", v |-> v]
NoWire == <<-1>>

VARIABLES sc,      \* the session's scenario: [ty, val, plan]
          pc,      \* next operation of the plan
          obj,     \* slot -> NoObj | Obj(v)
          wire     \* syntax -> octets last produced | NoWire
vars == <<sc, pc, obj, wire>>

TypeOf(s) == TRef(s.ty)
InitSession(s) == /\ sc = s /\ pc = 1
                  /\ obj = [i \in Slots |-> NoObj]
                  /\ wire = [x \in Syntaxes |-> NoWire]
StartSession(s) == /\ sc' = s /\ pc' = 1
                   /\ obj' = [i \in Slots |-> NoObj]
                   /\ wire' = [x \in Syntaxes |-> NoWire]

\* ---- operations -----------------------------------------------------------
OpBuild(slot) == [a |-> "Build", slot |-> slot]
OpEncode(slot, syn) == [a |-> "Encode", slot |-> slot, syn |-> syn]
OpDecode(slot, syn) == [a |-> "Decode", slot |-> slot, syn |-> syn]     \* decodes wire[syn]
OpCompare(s1, s2) == [a |-> "Compare", s1 |-> s1, s2 |-> s2]

Build(op) == /\ obj' = [obj EXCEPT ![op.slot] = Obj(sc.val)]
             /\ UNCHANGED wire
EncodeResult(op) == Enc(op.syn, TypeOf(sc), obj[op.slot].v)
Encode(op) == /\ obj[op.slot].st = "val"
              /\ wire' = [wire EXCEPT ![op.syn] = EncodeResult(op)]
              /\ UNCHANGED obj
\* decoding is the inverse of the encoder relation: the bytes in wire[syn] are an
\* encoding of exactly one value (model-level invariant: injectivity), the session value
Decode(op) == /\ wire[op.syn] # NoWire
              /\ wire[op.syn] = Enc(op.syn, TypeOf(sc), sc.val)
              /\ obj' = [obj EXCEPT ![op.slot] = Obj(sc.val)]
              /\ UNCHANGED wire
Compare(op) == /\ obj[op.s1].st = "val" /\ obj[op.s2].st = "val"
               /\ UNCHANGED <<obj, wire>>

Step == /\ pc <= Len(sc.plan)
        /\ pc' = pc + 1
        /\ UNCHANGED sc
        /\ LET op == sc.plan[pc] IN
             CASE op.a = "Build" -> Build(op)
               [] op.a = "Encode" -> Encode(op)
               [] op.a = "Decode" -> Decode(op)
               [] op.a = "Compare" -> Compare(op)

\* ---- observable results: does the logged event ev agree with what the operation
\* must report in the current state?  "ok" or the name of the first violated clause.
SessVal(x) == SameValue(RawEnv, TypeOf(sc), x, sc.val)
Has(ev, f) == f \in DOMAIN ev
Verdict(op, ev) ==
  CASE op.a = "Build" ->
         IF ~ev.ok THEN "build-failed"
         ELSE IF ~ev.wf THEN "build-projection-malformed"
         ELSE IF ~SessVal(ev.val) THEN "build-projection-differs" ELSE "ok"
    [] op.a = "Encode" ->
         IF obj[op.slot].st # "val" THEN "no-object"
         ELSE LET w == EncodeResult(op) IN
              IF ~Has(ev, "bytes") THEN "encode-failed"
              ELSE IF ev.bytes # w THEN "bytes-differ"
              ELSE IF ev.ret # Len(w) THEN "ret-differs" ELSE "ok"
    [] op.a = "Decode" ->
         IF wire[op.syn] = NoWire THEN "no-wire"
         ELSE IF ev.rc # "OK" THEN "rc-not-ok"
         ELSE IF ev.consumed # Len(wire[op.syn]) THEN "consumed-differs"
         ELSE IF ~Has(ev, "val") \/ ~ev.wf THEN "decoded-malformed"
         ELSE IF ~SessVal(ev.val) THEN "value-differs" ELSE "ok"
    [] op.a = "Compare" ->
         IF obj[op.s1].st # "val" \/ obj[op.s2].st # "val" THEN "no-object"
         ELSE IF (ev.ret = 0) # SameValue(RawEnv, TypeOf(sc), obj[op.s1].v, obj[op.s2].v) THEN "compare-differs" ELSE "ok"
    [] OTHER -> "unknown-op"

\* ---- invariants (the properties, stated on the model) ----------------------
RoundTrip == \A i \in Slots : obj[i].st = "val" => SameValue(RawEnv, TypeOf(sc), obj[i].v, sc.val)
WireCanonical == \A s \in Syntaxes : wire[s] # NoWire => wire[s] = Enc(s, TypeOf(sc), sc.val)
=============================================================================
