------------------------------- MODULE Codec -------------------------------
(***************************************************************************)
(* The runtime API of a generated codec as a state machine over ONE        *)
(* structure session.  A session is about a type of the module and an      *)
(* abstract value; it owns a few structure slots, the last encoding per    *)
(* transfer syntax, and executes a plan (sequence of API operations).      *)
(* Each operation is a relation between the pre-state, the arguments and   *)
(* the observable result of the call; Expect* below are those relations.   *)
(* The same actions are used by the generator (MC_Gen: TLC enumerates the  *)
(* sessions and exports them) and by the judge (Trace_Codec: events        *)
(* recorded from the real library must be explained by these actions).     *)
(***************************************************************************)
EXTENDS Values, OER

CONSTANTS Mod,           \* the module under test (raw, as written)
          ByteExact      \* TRUE: encoders must produce the reference octets (C02)

RawEnv == EnvOf(Mod)
Env == NormEnv(Mod)      \* tagging resolved; what the encoders work on

Syntaxes == {"DER", "UPER", "OER", "CXER", "BXER"}
\* XER output is not byte-exactly specified here (C02 does not list XER): the encoder's
\* result is an opaque octet string bound to the logged bytes; the round-trip, size
\* accounting and canonicity relations still constrain it.
Opaque(s) == s \in {"CXER", "BXER"}
OpaqueWire == <<-2>>
Enc(s, T, v) == CASE s = "DER" -> DER(Env, T, v)
                  [] s = "UPER" -> UPER(Env, T, v)
                  [] s = "OER" -> OER(Env, T, v)
                  [] OTHER -> OpaqueWire

Slots == 1..3
NoObj == [st |-> "none"]
Obj(v) == [st |-> "val", v |-> v]
NoWire == <<-1>>

VARIABLES sc,      \* the session's scenario: [ty, val, plan]
          pc,      \* next operation of the plan
          obj,     \* slot -> NoObj | Obj(v)
          wire     \* syntax -> octets last produced | NoWire
vars == <<sc, pc, obj, wire>>

TypeOf(s) == TRef(s.ty)
InitSession(s) == /\ sc = s /\ pc = 1
                  /\ obj = [i \in Slots |-> NoObj]
                  /\ wire = [x \in Syntaxes |-> NoWire]
StartSession(s) == /\ sc' = s /\ pc' = 1
                   /\ obj' = [i \in Slots |-> NoObj]
                   /\ wire' = [x \in Syntaxes |-> NoWire]

\* ---- operations -----------------------------------------------------------
OpBuild(slot) == [a |-> "Build", slot |-> slot]
OpEncode(slot, syn) == [a |-> "Encode", slot |-> slot, syn |-> syn]
OpDecode(slot, syn) == [a |-> "Decode", slot |-> slot, syn |-> syn]     \* decodes wire[syn]
OpCompare(s1, s2) == [a |-> "Compare", s1 |-> s1, s2 |-> s2]

Build(op) == /\ obj' = [obj EXCEPT ![op.slot] = Obj(sc.val)]
             /\ UNCHANGED wire
\* The encoder's result.  ByteExact: the octets the reference encoder prescribes (C02).
\* Otherwise (and for the syntaxes without a byte-exact reference) the action is a relation:
\* some octets obs, bound to the logged bytes by the trace specification -- but a canonical
\* syntax yields the SAME octets whenever the same abstract value is encoded again
\* (C01 "same DER re-encoding", C06).
Canonical(s) == s # "BXER"
EncodeWire(op, obs) ==
  IF ByteExact /\ ~Opaque(op.syn) THEN Enc(op.syn, TypeOf(sc), obj[op.slot].v)
  ELSE IF Canonical(op.syn) /\ wire[op.syn] # NoWire THEN wire[op.syn]
  ELSE obs
Encode(op, obs) == /\ obj[op.slot].st = "val"
                   /\ wire' = [wire EXCEPT ![op.syn] = EncodeWire(op, obs)]
                   /\ UNCHANGED obj
\* decoding is the inverse of the encoder relation: the bytes in wire[syn] are an
\* encoding of exactly one value (model-level invariant: injectivity), the session value
Decode(op) == /\ wire[op.syn] # NoWire
              /\ obj' = [obj EXCEPT ![op.slot] = Obj(sc.val)]
              /\ UNCHANGED wire
Compare(op) == /\ obj[op.s1].st = "val" /\ obj[op.s2].st = "val"
               /\ UNCHANGED <<obj, wire>>

Step(obs) == /\ pc <= Len(sc.plan)
        /\ pc' = pc + 1
        /\ UNCHANGED sc
        /\ LET op == sc.plan[pc] IN
             CASE op.a = "Build" -> Build(op)
               [] op.a = "Encode" -> Encode(op, obs)
               [] op.a = "Decode" -> Decode(op)
               [] op.a = "Compare" -> Compare(op)

\* ---- observable results: in which clauses does the logged event ev disagree with what the
\* operation must report in the current state?  The set of violated clause names (empty = ok).
SessVal(x) == SameValue(RawEnv, TypeOf(sc), x, sc.val)
Has(ev, f) == f \in DOMAIN ev
When(c, name) == IF c THEN {name} ELSE {}
Faults(op, ev) ==
  CASE op.a = "Build" ->
         IF ~ev.ok THEN {"build-failed"}
         ELSE IF ~ev.wf THEN {"build-projection-malformed"}
         ELSE When(~SessVal(ev.val), "build-projection-differs")
    [] op.a = "Encode" ->
         IF obj[op.slot].st # "val" THEN {"no-object"}
         ELSE IF ~Has(ev, "bytes") THEN {"encode-failed"}
         ELSE When(ev.ret # Len(ev.bytes), "ret-differs")
              \cup When(ev.ret <= 0 /\ op.syn # "OER", "empty-encoding")
              \cup When(ev.bytes # EncodeWire(op, ev.bytes), "bytes-differ")
    [] op.a = "Decode" ->
         IF wire[op.syn] = NoWire THEN {"no-wire"}
         ELSE IF ev.rc # "OK" THEN {"rc-not-ok"}
         ELSE When(ev.consumed # ev.size, "consumed-differs")
              \cup When(ev.size # Len(wire[op.syn]), "size-differs")
              \cup (IF ~Has(ev, "val") \/ ~ev.wf THEN {"decoded-malformed"}
                    ELSE When(~SessVal(ev.val), "value-differs"))
    [] op.a = "Compare" ->
         IF obj[op.s1].st # "val" \/ obj[op.s2].st # "val" THEN {"no-object"}
         ELSE When((ev.ret = 0) # SameValue(RawEnv, TypeOf(sc), obj[op.s1].v, obj[op.s2].v), "compare-differs")
    [] OTHER -> {"unknown-op"}

\* ---- invariants (the properties, stated on the model) ----------------------
RoundTrip == \A i \in Slots : obj[i].st = "val" => SameValue(RawEnv, TypeOf(sc), obj[i].v, sc.val)
WireCanonical == ByteExact => \A s \in Syntaxes : wire[s] # NoWire /\ ~Opaque(s) => wire[s] = Enc(s, TypeOf(sc), sc.val)
=============================================================================
