------------------------------- MODULE Codec -------------------------------
(***************************************************************************)
(* The runtime API of a generated codec as a state machine over ONE        *)
(* structure session.  A session is about a type of the module and an      *)
(* abstract value; it owns a few structure slots, the last encoding per    *)
(* transfer syntax, and executes a plan (sequence of API operations).      *)
(* Each operation is a relation between the pre-state, the arguments and   *)
(* the observable result of the call; Expect* below are those relations.   *)
(* The same actions are used by the generator (MC_Gen: TLC enumerates the  *)
(* sessions and exports them) and by the judge (Trace_Codec: events        *)
(* recorded from the real library must be explained by these actions).     *)
(***************************************************************************)
EXTENDS Values, Variants

CONSTANTS Mod,           \* the module under test (raw, as written)
          ByteExact      \* TRUE: encoders must produce the reference octets (C02)

RawEnv == EnvOf(Mod)
Env == NormEnv(Mod)      \* tagging resolved; what the encoders work on

Syntaxes == {"DER", "UPER", "OER", "CXER", "BXER"}
\* XER output is not byte-exactly specified here (C02 does not list XER): the encoder's
\* result is an opaque octet string bound to the logged bytes; the round-trip, size
\* accounting and canonicity relations still constrain it.
Opaque(s) == s \in {"CXER", "BXER"}
OpaqueWire == <<-2>>
\* reference XER text (an input for the decoders, not an expectation on the encoder's octets)
XerRef(T, v) == XER(Env, T.n, T, v)
Enc(s, T, v) == CASE s = "DER" -> DER(Env, T, v)
                  [] s = "UPER" -> UPER(Env, T, v)
                  [] s = "OER" -> OER(Env, T, v)
                  [] OTHER -> OpaqueWire

Slots == 1..3
NoObj == [st |-> "none"]
RawObj == [st |-> "raw"]      \* allocated, content not known to the specification (failed / arbitrary decode)
ZeroObj == [st |-> "zero"]    \* a structure after ASN_STRUCT_RESET: all zero
BadObj == [st |-> "bad"]      \* denotes no value: a mandatory component is absent or a CHOICE has no alternative selected
Obj(v) == [st |-> "val", v |-> v, sess |-> TRUE, seen |-> FALSE]     \* holds the session's value
ObjV(v) == [st |-> "val", v |-> v, sess |-> FALSE, seen |-> FALSE]   \* holds another (possibly invalid) value, built by the scenario
ObjS(v) == [st |-> "val", v |-> v, sess |-> FALSE, seen |-> TRUE]    \* holds whatever a decoder of arbitrary octets reported (C04)
NoWire == <<-1>>

VARIABLES sc,      \* the session's scenario: [ty, val, plan]
          pc,      \* next operation of the plan
          obj,     \* slot -> NoObj | Obj(v)
          wire,    \* syntax -> octets last produced | NoWire
          dec,     \* restartable decoding session (C05): [st, slot, syn, enc, pos]
          fault    \* k > 0: the k-th allocation of the library will fail (C14); 0: none armed
vars == <<sc, pc, obj, wire, dec, fault>>
NoDec == [st |-> "idle", slot |-> 0, syn |-> "", enc |-> <<>>, pos |-> 0]

TypeOf(s) == TRef(s.ty)
InitSession(s) == /\ sc = s /\ pc = 1
                  /\ obj = [i \in Slots |-> NoObj]
                  /\ wire = [x \in Syntaxes |-> NoWire]
                  /\ dec = NoDec /\ fault = 0
StartSession(s) == /\ sc' = s /\ pc' = 1
                   /\ obj' = [i \in Slots |-> NoObj]
                   /\ wire' = [x \in Syntaxes |-> NoWire]
                   /\ dec' = NoDec /\ fault' = 0

\* ---- operations -----------------------------------------------------------
OpBuild(slot) == [a |-> "Build", slot |-> slot]
\* a structure denoting the session's value in a NON-canonical in-memory representation (C06):
\* "perm" SET OF members in another order, "pad" INTEGER with redundant leading octets,
\* "defaults" DEFAULT components stored explicitly, "noise" garbage in the unused bits of a
\* BIT STRING, "true" a non-canonical TRUE.  The abstract value is the same by definition.
OpBuildRep(slot, rep) == [a |-> "BuildRep", slot |-> slot, rep |-> rep]
OpBuildVal(slot, val) == [a |-> "BuildVal", slot |-> slot, val |-> val]   \* a structure holding val (maybe invalid)
OpCheck(slot) == [a |-> "Check", slot |-> slot]                           \* asn_check_constraints, all buffer sizes
OpEncode(slot, syn) == [a |-> "Encode", slot |-> slot, syn |-> syn]
OpDecode(slot, syn) == [a |-> "Decode", slot |-> slot, syn |-> syn]     \* decodes wire[syn]
OpDecodeAny(slot, syn, bytes, style) == [a |-> "DecodeAny", slot |-> slot, syn |-> syn, bytes |-> bytes, style |-> style]  \* arbitrary octets (C04)
OpDecodeInto(slot, syn, bytes) == [a |-> "DecodeInto", slot |-> slot, syn |-> syn, bytes |-> bytes]   \* into the existing (reset) structure
OpEncodeCb(slot, syn, failat) == [a |-> "EncodeCb", slot |-> slot, syn |-> syn, failat |-> failat]  \* asn_encode, callback failing at its failat-th call
\* asn_encode through a callback failing at its k-th call only ("once") or from its k-th call on ("from"), for every k
OpEncodeCbSweep(slot, syn, mode) == [a |-> "EncodeCbSweep", slot |-> slot, syn |-> syn, mode |-> mode]
\* C14: the call repeated with the k-th allocation of the library failing, for every k; whatever it returns is released
OpAllocSweepEnc(slot, syn) == [a |-> "AllocSweepEnc", slot |-> slot, syn |-> syn]
OpAllocSweepDec(syn, bytes) == [a |-> "AllocSweepDec", syn |-> syn, bytes |-> bytes]      \* bytes: a valid encoding of the session value
\* every proper prefix of a valid encoding (wire: the octets the preceding Encode produced) decoded and freed
OpTruncSweep(syn, bytes) == [a |-> "TruncSweep", syn |-> syn, bytes |-> bytes, wire |-> FALSE]
OpTruncSweepW(syn) == [a |-> "TruncSweep", syn |-> syn, bytes |-> <<>>, wire |-> TRUE]
OpEncodeBuf(slot, syn, rel) == [a |-> "EncodeBuf", slot |-> slot, syn |-> syn, rel |-> rel]          \* asn_encode_to_buffer, size relative to the full length
OpBuildZero(slot) == [a |-> "BuildZero", slot |-> slot]     \* a zero-initialised structure (CHOICE unselected, members absent)
\* the octets another build of the same module (other code-generation options, C13) produced for the
\* session value: recorded as the encoding of that syntax, so that this build must reproduce them
OpAdopt(syn, bytes) == [a |-> "Adopt", syn |-> syn, bytes |-> bytes]
OpArm(k) == [a |-> "Arm", k |-> k]
OpFree(slot) == [a |-> "Free", slot |-> slot]
OpReset(slot) == [a |-> "Reset", slot |-> slot]
OpPrint(slot) == [a |-> "Print", slot |-> slot]
OpCompare(s1, s2) == [a |-> "Compare", s1 |-> s1, s2 |-> s2]
OpDecodeLit(slot, syn, bytes, style) == [a |-> "DecodeLit", slot |-> slot, syn |-> syn, bytes |-> bytes, style |-> style]  \* one-shot, given octets
OpStartDecode(slot, syn, bytes) == [a |-> "StartDecode", slot |-> slot, syn |-> syn, bytes |-> bytes]
OpDecodeCall(avail) == [a |-> "DecodeCall", avail |-> avail]   \* decoder called with octets pos+1..avail

Build(op) == /\ obj' = [obj EXCEPT ![op.slot] = Obj(sc.val)]
             /\ UNCHANGED <<wire, dec>>
\* The encoder's result.  ByteExact: the octets the reference encoder prescribes (C02).
\* Otherwise (and for the syntaxes without a byte-exact reference) the action is a relation:
\* some octets obs, bound to the logged bytes by the trace specification -- but a canonical
\* syntax yields the SAME octets whenever the same abstract value is encoded again
\* (C01 "same DER re-encoding", C06).  PER and OER carry a time value as the text it was given in (only DER
\* and CANONICAL-XER are required to normalise it), so for them the rule applies to canonical time texts only.
Canonical(s) == s # "BXER"
TextIndependent(s) == s \in {"DER", "CXER"} \/ TimeTextCanonical(RawEnv, TypeOf(sc), sc.val)
EncodeWire(op, obs) ==
  IF ByteExact /\ ~Opaque(op.syn) THEN Enc(op.syn, TypeOf(sc), obj[op.slot].v)
  ELSE IF Canonical(op.syn) /\ TextIndependent(op.syn) /\ wire[op.syn] # NoWire THEN wire[op.syn]
  ELSE obs
Encode(op, obs) == /\ obj[op.slot].st = "val"
                   /\ wire' = [wire EXCEPT ![op.syn] = EncodeWire(op, obs)]
                   /\ UNCHANGED <<obj, dec>>
\* decoding is the inverse of the encoder relation: the bytes in wire[syn] are an
\* encoding of exactly one value (model-level invariant: injectivity), the session value
Decode(op) == /\ obj' = [obj EXCEPT ![op.slot] = Obj(sc.val)]
              /\ UNCHANGED <<wire, dec>>
\* The octets given to DecodeLit / StartDecode are, by construction of the scenario, a valid
\* encoding of the session's value (generator: reference encoder or variant relation).
DecodeLit(op) == /\ obj' = [obj EXCEPT ![op.slot] = Obj(sc.val)]
                 /\ UNCHANGED <<wire, dec>>
\* Restartable decoding (C05).  The caller owns the stream enc; each call presents the octets
\* not yet consumed, up to avail.  The contract: while octets are missing the decoder answers
\* WMORE and consumes some prefix of what it was shown; shown everything, it answers OK, has
\* consumed everything, and the structure holds the value.
StartDecode(op) == /\ dec' = [st |-> "active", slot |-> op.slot, syn |-> op.syn, enc |-> op.bytes, pos |-> 0]
                   /\ obj' = [obj EXCEPT ![op.slot] = NoObj]
                   /\ UNCHANGED wire
DecodeCall(op, consumed) ==
  /\ dec.st = "active" /\ op.avail <= Len(dec.enc) /\ dec.pos <= op.avail
  /\ IF op.avail < Len(dec.enc)
     THEN /\ consumed \in 0..(op.avail - dec.pos)                  \* rc = WMORE
          /\ dec' = [dec EXCEPT !.pos = @ + consumed]
          /\ UNCHANGED obj
     ELSE /\ consumed = op.avail - dec.pos                          \* rc = OK
          /\ dec' = [dec EXCEPT !.pos = op.avail, !.st = "done"]
          /\ obj' = [obj EXCEPT ![dec.slot] = Obj(sc.val)]
  /\ UNCHANGED wire

\* obs: what the trace binds (logged octets of an opaque encoder, logged consumed count);
\* the generator explores with the neutral observation GenObs
GenObs == [bytes |-> OpaqueWire, consumed |-> 0, allocfailed |-> 0, rc |-> "FAIL", wf |-> FALSE, val |-> 0, bad |-> FALSE]
Vouched(o) == o.st = "val" /\ (o.sess \/ (~o.seen /\ Valid(RawEnv, TypeOf(sc), o.v)))
\* did an armed allocation failure fire inside this call?  (logged by the allocator wrapper)
Fired(obs) == fault > 0 /\ obs.allocfailed > 0
Lib(op) == op.a \in {"Encode", "EncodeCb", "EncodeBuf", "EncodeCbSweep", "AllocSweepEnc", "AllocSweepDec", "TruncSweep", "Decode", "DecodeLit", "DecodeAny", "DecodeInto", "DecodeCall",
                     "Free", "Reset", "Print", "Check", "Compare"}
\* what a decode leaves in the slot when the specification cannot predict it: the logged value if
\* the decoder said OK and the projection is well-formed, else an allocated structure of unknown content
Observed(obs) == IF obs.rc = "OK" /\ obs.wf THEN ObjS(obs.val) ELSE RawObj

Step(obs) ==
  /\ pc <= Len(sc.plan)
  /\ pc' = pc + 1
  /\ UNCHANGED sc
  /\ LET op == sc.plan[pc] IN
     /\ fault' = IF op.a = "Arm" THEN op.k ELSE IF Lib(op) /\ Fired(obs) THEN 0 ELSE fault
     /\ IF Lib(op) /\ Fired(obs)
        THEN \* C14: the call fails or succeeds cleanly; what it leaves behind is only known to be releasable
             /\ UNCHANGED wire
             /\ dec' = IF op.a = "DecodeCall" THEN [dec EXCEPT !.st = "done"] ELSE dec
             /\ obj' = CASE op.a \in {"Decode", "DecodeLit", "DecodeAny", "DecodeInto"} -> [obj EXCEPT ![op.slot] = Observed(obs)]
                          [] op.a = "DecodeCall" -> [obj EXCEPT ![dec.slot] = Observed(obs)]
                          [] op.a \in {"Free"} -> [obj EXCEPT ![op.slot] = NoObj]
                          [] op.a \in {"Reset"} -> [obj EXCEPT ![op.slot] = ZeroObj]
                          [] OTHER -> obj
        ELSE
        CASE op.a \in {"Build", "BuildRep"} -> Build(op)
          [] op.a = "BuildVal" -> obj' = [obj EXCEPT ![op.slot] = ObjV(op.val)] /\ UNCHANGED <<wire, dec>>
          [] op.a = "BuildZero" -> obj' = [obj EXCEPT ![op.slot] = IF obs.bad THEN BadObj ELSE RawObj] /\ UNCHANGED <<wire, dec>>
          [] op.a = "Arm" -> UNCHANGED <<obj, wire, dec>>
          [] op.a = "Adopt" -> wire' = [wire EXCEPT ![op.syn] = op.bytes] /\ UNCHANGED <<obj, dec>>
          [] op.a \in {"Check", "Print", "EncodeCb", "EncodeBuf", "EncodeCbSweep", "AllocSweepEnc"} -> obj[op.slot].st # "none" /\ UNCHANGED <<obj, wire, dec>>
          [] op.a \in {"AllocSweepDec", "TruncSweep"} -> UNCHANGED <<obj, wire, dec>>
          [] op.a = "Encode" -> IF Vouched(obj[op.slot])
                                THEN Encode(op, obs.bytes)
                                ELSE \* a structure the specification does not vouch for: the result is only logged
                                     /\ wire' = [wire EXCEPT ![op.syn] = IF obs.bytes = OpaqueWire THEN NoWire ELSE obs.bytes]
                                     /\ UNCHANGED <<obj, dec>>
          [] op.a = "DecodeLit" -> DecodeLit(op)
          [] op.a = "DecodeAny" -> obj' = [obj EXCEPT ![op.slot] = Observed(obs)] /\ UNCHANGED <<wire, dec>>
          [] op.a = "DecodeInto" -> obj[op.slot].st = "zero" /\ DecodeLit(op)
          [] op.a = "StartDecode" -> StartDecode(op)
          [] op.a = "DecodeCall" -> DecodeCall(op, IF op.avail < Len(dec.enc) THEN obs.consumed ELSE op.avail - dec.pos)
          [] op.a = "Decode" -> IF wire[op.syn] = NoWire THEN UNCHANGED <<obj, wire, dec>>      \* nothing was encoded: nothing to decode
                                ELSE IF obj[1].st # "val" \/ ~obj[1].sess
                                THEN \* re-decoding what an unvouched structure encoded to (C04 consistency)
                                     obj' = [obj EXCEPT ![op.slot] = Observed(obs)] /\ UNCHANGED <<wire, dec>>
                                ELSE Decode(op)
          [] op.a = "Compare" -> UNCHANGED <<obj, wire, dec>>
          [] op.a = "Free" -> /\ obj' = [obj EXCEPT ![op.slot] = NoObj]
                              /\ dec' = IF dec.st = "active" /\ dec.slot = op.slot THEN NoDec ELSE dec
                              /\ UNCHANGED wire
          [] op.a = "Reset" -> obj' = [obj EXCEPT ![op.slot] = IF obj[op.slot].st = "none" THEN NoObj ELSE ZeroObj] /\ UNCHANGED <<wire, dec>>

\* ---- observable results: in which clauses does the logged event ev disagree with what the
\* operation must report in the current state?  The set of violated clause names (empty = ok).
SessVal(x) == SameValue(RawEnv, TypeOf(sc), x, sc.val)
Has(ev, f) == f \in DOMAIN ev
When(c, name) == IF c THEN {name} ELSE {}
EIO == 5
\* after this Free, does the session own any structure?  (then the allocator must be balanced)
AllGoneAfter(op) == /\ \A i \in Slots : i # op.slot => obj[i].st = "none"
                    /\ (dec.st = "active" => dec.slot = op.slot)
DecodeOps == {"Decode", "DecodeLit", "DecodeAny", "DecodeInto", "DecodeCall"}
EncodeOps == {"Encode", "EncodeCb", "EncodeBuf", "EncodeCbSweep"}
\* C07: a structure that denotes no value has no encoding: -1 with an errno, nothing else
Unencodable(op, ev) == When(ev.ret >= 0, "unencodable-structure-encoded") \cup When(ev.ret < 0 /\ ev.errno = 0, "failure-without-errno")

\* an armed allocation failure fired inside the call: it must fail or succeed cleanly (C14)
LenientFaults(op, ev) ==
  CASE op.a \in DecodeOps -> When(ev.rc \notin {"OK", "FAIL", "WMORE"}, "bad-rc")
    [] op.a \in EncodeOps -> When(ev.ret < -1, "bad-return")
    [] op.a = "Free" -> When(AllGoneAfter(op) /\ ev.live # 0, "leak")
    [] OTHER -> {}

StrictFaults(op, ev) ==
  CASE op.a \in {"Build", "BuildRep"} ->
         IF ~ev.ok THEN {"build-failed"}
         ELSE IF ~ev.wf THEN {"build-projection-malformed"}
         ELSE When(~SessVal(ev.val), "build-projection-differs")
    [] op.a = "BuildVal" ->
         IF ~ev.ok THEN {"build-failed"}
         ELSE IF ~ev.wf THEN {"build-projection-malformed"}
         ELSE When(~SameValue(RawEnv, TypeOf(sc), ev.val, op.val), "build-projection-differs")
    [] op.a = "BuildZero" -> When(~ev.ok, "build-failed")
    [] op.a \in {"Arm", "Adopt"} -> {}
    [] op.a = "Encode" ->
         IF obj[op.slot].st = "none" THEN {"no-object"}
         ELSE IF obj[op.slot].st = "bad" THEN Unencodable(op, ev) \cup When(ev.buf, "buffer-returned-on-failure")
         ELSE IF ~Vouched(obj[op.slot])
         THEN \* C07: a structure that may not be encodable fails with -1 and an errno and no buffer, or encodes
              (IF ev.ret < 0 THEN When(ev.errno = 0, "failure-without-errno") \cup When(ev.buf, "buffer-returned-on-failure")
               ELSE When(~Has(ev, "bytes") \/ ~ev.buf, "no-buffer-on-success"))
         ELSE IF ~Has(ev, "bytes") THEN {"encode-failed"} \cup When(ev.buf, "buffer-returned-on-failure")
         ELSE When(ev.ret # Len(ev.bytes), "ret-differs")
              \cup When(ev.ret <= 0 /\ op.syn # "OER", "empty-encoding")
              \cup When(ev.bytes # EncodeWire(op, ev.bytes), "bytes-differ")
    [] op.a = "AllocSweepEnc" ->
         IF obj[op.slot].st = "none" THEN {"no-object"}
         ELSE IF ev.ret0 < 0 THEN When(Vouched(obj[op.slot]), "encode-failed")
         ELSE When(\E i \in DOMAIN ev.runs : ev.runs[i].ret < -1, "bad-return")
              \cup When(\E i \in DOMAIN ev.runs : ev.runs[i].ret < 0 /\ ev.runs[i].buf, "buffer-returned-on-failure")
              \cup When(\E i \in DOMAIN ev.runs : ~ev.runs[i].fired /\ ev.runs[i].ret # ev.ret0, "result-differs-without-failure")
              \cup When(\E i \in DOMAIN ev.runs : ev.runs[i].leak # 0, "allocation-failure-leaks")
    [] op.a = "TruncSweep" ->
         When(\E i \in DOMAIN ev.runs : ev.runs[i].rc \notin {"OK", "FAIL", "WMORE"}, "bad-rc")
         \cup When(\E i \in DOMAIN ev.runs : ev.runs[i].consumed > ev.runs[i].len, "consumed-exceeds-size")
         \cup When(\E i \in DOMAIN ev.runs : ev.runs[i].leak # 0, "starved-decode-leaks")
    [] op.a = "AllocSweepDec" ->
         IF ev.rc # "OK" THEN {"rc-not-ok"}
         ELSE When(ev.consumed # Len(op.bytes), "consumed-differs")
              \cup When(\E i \in DOMAIN ev.runs : ev.runs[i].rc \notin {"OK", "FAIL", "WMORE"}, "bad-rc")
              \cup When(\E i \in DOMAIN ev.runs : ~ev.runs[i].fired /\ ev.runs[i].rc # "OK", "result-differs-without-failure")
              \cup When(\E i \in DOMAIN ev.runs : ev.runs[i].leak # 0, "allocation-failure-leaks")
    [] op.a = "EncodeCbSweep" ->
         \* C07 for every callback index: a run whose callback failed reports -1 / EIO; a run whose callback was never
         \* asked to fail (the failing index lies beyond its calls) reports the undisturbed size; no run leaves a block behind
         IF obj[op.slot].st = "none" THEN {"no-object"}
         ELSE IF obj[op.slot].st = "bad" THEN When(ev.ret0 >= 0, "unencodable-structure-encoded")
         ELSE IF ev.ret0 < 0 THEN When(Vouched(obj[op.slot]), "encode-failed")
         ELSE When(\E i \in DOMAIN ev.runs : ev.runs[i].failed /\ ev.runs[i].ret # -1, "callback-failure-not-reported")
              \cup When(\E i \in DOMAIN ev.runs : ev.runs[i].failed /\ ev.runs[i].ret = -1 /\ ev.runs[i].errno # EIO, "errno-not-EIO")
              \cup When(\E i \in DOMAIN ev.runs : ~ev.runs[i].failed /\ ev.runs[i].ret # ev.ret0, "size-differs-between-runs")
              \cup When(\E i \in DOMAIN ev.runs : ev.runs[i].leak # 0, "failed-encode-leaks")
    [] op.a = "EncodeCb" ->
         \* C07: reported size = octets delivered; a failing callback => -1 / EIO
         IF obj[op.slot].st = "none" THEN {"no-object"}
         ELSE IF obj[op.slot].st = "bad" THEN Unencodable(op, ev)
         ELSE IF ev.failed THEN When(ev.ret # -1, "callback-failure-not-reported") \cup When(ev.ret = -1 /\ ev.errno # EIO, "errno-not-EIO")
         ELSE IF ev.ret < 0 THEN (IF Vouched(obj[op.slot]) THEN {"encode-failed"} ELSE When(ev.errno = 0, "failure-without-errno"))
         ELSE When(ev.ret # ev.delivered, "size-not-delivered")
              \cup When(Vouched(obj[op.slot]) /\ wire[op.syn] # NoWire /\ Canonical(op.syn) /\ ev.ret # Len(wire[op.syn]), "size-differs")
    [] op.a = "EncodeBuf" ->
         \* C07: never writes beyond the buffer; the same full size for every buffer size; the prefix that fits
         IF obj[op.slot].st = "none" THEN {"no-object"}
         ELSE IF obj[op.slot].st = "bad" THEN Unencodable(op, ev) \cup When(~ev.canary, "wrote-beyond-buffer")
         ELSE When(~ev.canary, "wrote-beyond-buffer")
              \cup (IF ev.ret < 0 THEN (IF Vouched(obj[op.slot]) THEN {"encode-failed"} ELSE When(ev.errno = 0, "failure-without-errno"))
                    ELSE When(Vouched(obj[op.slot]) /\ wire[op.syn] # NoWire /\ Canonical(op.syn) /\ ev.ret # Len(wire[op.syn]), "size-depends-on-buffer")
                         \cup When(Vouched(obj[op.slot]) /\ Canonical(op.syn) /\ ~ev.prefix, "buffer-not-a-prefix"))
    [] op.a = "Decode" ->
         IF wire[op.syn] = NoWire THEN {"no-wire"}
         ELSE IF obj[1].st # "val" THEN {}      \* a structure of unknown content was re-encoded: nothing is promised
         ELSE IF ev.rc # "OK" THEN {"rc-not-ok"}
         ELSE When(ev.consumed # ev.size, "consumed-differs")
              \cup When(ev.size # Len(wire[op.syn]), "size-differs")
              \cup (IF ~Has(ev, "val") \/ ~ev.wf THEN {"decoded-malformed"}
                    ELSE IF obj[1].st = "val" /\ ~obj[1].sess
                    THEN When(~SameValue(RawEnv, TypeOf(sc), ev.val, obj[1].v), "value-differs")
                    ELSE When(~SessVal(ev.val), "value-differs"))
    [] op.a \in {"DecodeLit", "DecodeInto"} ->
         IF op.a = "DecodeInto" /\ obj[op.slot].st # "zero" THEN {"not-reset"}
         ELSE IF ev.rc # "OK" THEN {"rc-not-ok"}
         ELSE When(ev.consumed # Len(op.bytes), "consumed-differs")
              \cup (IF ~Has(ev, "val") \/ ~ev.wf THEN {"decoded-malformed"}
                    ELSE When(~SessVal(ev.val), "value-differs"))
    [] op.a = "DecodeAny" ->
         \* C04: any octets: one of the three codes, never more consumed than given
         When(ev.rc \notin {"OK", "WMORE", "FAIL"}, "bad-rc") \cup When(ev.consumed > ev.size, "consumed-exceeds-size")
         \* C18: an identifier without a row in the object set is never accepted, and whatever is accepted
         \* holds an open type value of the type paired with its identifier
         \cup When(op.style = "ioc-norow" /\ ev.rc = "OK", "unknown-identifier-accepted")
         \cup When(ev.rc = "OK" /\ Has(ev, "val") /\ ev.wf /\ ~IocConsistent(RawEnv, TypeOf(sc), ev.val), "open-type-not-paired-with-identifier")
    [] op.a = "StartDecode" -> {}
    [] op.a = "DecodeCall" ->
         IF dec.st # "active" THEN {"no-decoding-session"}
         ELSE LET pres == op.avail - dec.pos IN
              When(ev.presented # pres, "presented-differs") \cup
              (IF op.avail < Len(dec.enc)
               THEN (IF ev.rc = "OK" THEN {"early-ok"}
                     ELSE IF ev.rc = "FAIL" THEN {"fail-on-prefix"}
                     ELSE IF ev.rc # "WMORE" THEN {"bad-rc"}
                     ELSE When(ev.consumed > pres, "consumed-exceeds-presented"))
               ELSE (IF ev.rc # "OK" THEN {"rc-not-ok"}
                     ELSE When(ev.consumed # pres, "consumed-differs")
                          \cup (IF ~Has(ev, "val") \/ ~ev.wf THEN {"decoded-malformed"}
                                ELSE When(~SessVal(ev.val), "value-differs"))))
    [] op.a = "Check" ->
         \* C08: 0 iff every constraint at every depth holds; on failure a bounded, terminated
         \* message naming a type, for every buffer size (runs: one entry per size tried)
         IF obj[op.slot].st = "none" THEN {"no-object"}
         ELSE IF obj[op.slot].st # "val" \/ obj[op.slot].seen THEN {}    \* C04: it only has to return
         ELSE LET ok == Valid(RawEnv, TypeOf(sc), obj[op.slot].v) IN
              When(ok /\ ev.ret # 0, "valid-rejected")
              \cup When(~ok /\ ev.ret = 0, "invalid-accepted")
              \cup When(ev.ret # 0 /\ ev.ret # -1, "bad-return")
              \cup (IF ev.ret = 0 THEN {}
                    ELSE When(\E i \in DOMAIN ev.runs : ev.runs[i].ret # ev.ret, "result-depends-on-buffer")
                         \cup When(\E i \in DOMAIN ev.runs : ~ev.runs[i].canary, "message-overruns-buffer")
                         \cup When(\E i \in DOMAIN ev.runs : ev.runs[i].bufsize > 0 /\ ~ev.runs[i].terminated, "message-not-terminated")
                         \cup When(\E i \in DOMAIN ev.runs : ev.runs[i].bufsize > 0 /\ ev.runs[i].errlen >= ev.runs[i].bufsize, "errlen-exceeds-buffer")
                         \cup When(\E i \in DOMAIN ev.runs : ev.runs[i].bufsize > 0 /\ ev.runs[i].errlen # ev.runs[i].msglen, "errlen-is-not-message-length")
                         \cup When(\E i \in DOMAIN ev.runs : ~ev.runs[i].prefix, "message-not-a-prefix")
                         \cup When(~ev.named, "message-names-no-type"))
    [] op.a = "Compare" ->
         IF obj[op.s1].st = "none" \/ obj[op.s2].st = "none" THEN {"no-object"}
         ELSE IF obj[op.s1].st # "val" \/ obj[op.s2].st # "val" THEN {}
         ELSE When((ev.ret = 0) # SameValue(RawEnv, TypeOf(sc), obj[op.s1].v, obj[op.s2].v), "compare-differs")
    [] op.a = "Print" -> When(obj[op.slot].st = "none", "no-object")
    [] op.a = "Free" -> When(AllGoneAfter(op) /\ ev.live # 0, "leak")
    [] op.a = "Reset" -> When(ev.had /\ ~ev.zeroed, "reset-not-zeroed")
    [] OTHER -> {"unknown-op"}

Faults(op, ev) == IF Lib(op) /\ fault > 0 /\ Has(ev, "allocfailed") /\ ev.allocfailed > 0
                  THEN LenientFaults(op, ev) ELSE StrictFaults(op, ev)

\* does the representation change anything for this value?
RECURSIVE RepApplies(_, _, _)
RepApplies(T0, v, rep) ==
  LET T == Resolve(RawEnv, T0) IN
  CASE T.k \in {"SEQUENCE", "SET"} ->
         LET cs == AllComps(T) IN
         \/ (rep = "defaults" /\ \E i \in DOMAIN cs : cs[i].o = "D" /\ ~IsPres(v[i]))
         \/ \E i \in DOMAIN cs : IsPres(v[i]) /\ RepApplies(cs[i].t, v[i][1], rep)
    [] T.k = "CHOICE" -> RepApplies(CompByName(T, AltOf(v)).t, AltVal(v), rep)
    [] T.k = "SEQOF" -> \E i \in DOMAIN v : RepApplies(T.t, v[i], rep)
    [] T.k = "SETOF" -> (rep = "perm" /\ Len(v) >= 2 /\ \E i \in DOMAIN v : v[i] # v[1])
                        \/ \E i \in DOMAIN v : RepApplies(T.t, v[i], rep)
    [] T.k = "INTEGER" -> rep = "pad" /\ IntRepr(T.c) = "wide"
    [] T.k = "BITS" -> rep = "noise" /\ v.n % 8 # 0
    [] T.k = "BOOLEAN" -> rep = "true" /\ v
    [] OTHER -> FALSE

\* ---- invariants (the properties, stated on the model) ----------------------
RoundTrip == \A i \in Slots : obj[i].st = "val" /\ obj[i].sess => SameValue(RawEnv, TypeOf(sc), obj[i].v, sc.val)
\* C05 on the model: a decoding session never runs ahead of its stream, and a finished one
\* has consumed exactly the stream
DecSound == /\ dec.pos <= Len(dec.enc)
            /\ (dec.st = "done" => dec.pos = Len(dec.enc) /\ obj[dec.slot] = Obj(sc.val))
WireCanonical == ByteExact => \A s \in Syntaxes : wire[s] # NoWire /\ ~Opaque(s) => wire[s] = Enc(s, TypeOf(sc), sc.val)
=============================================================================
