------------------------------- MODULE MC_BER -------------------------------
(* Known-answer vectors for the DER reference encoder (X.690 examples and   *)
(* the repository's own fixed test vectors).                                *)
EXTENDS BER

E0 == [x \in {} |-> TBool]
I(n) == IOfInt(n)
D(T, v) == DER(E0, T, v)
Dbl(a,b,c,d,e,f,g,h) == <<a,b,c,d,e,f,g,h>>

ASSUME D(TInt(CNone), I(0)) = <<2,1,0>>
ASSUME D(TInt(CNone), I(127)) = <<2,1,127>>
ASSUME D(TInt(CNone), I(128)) = <<2,2,0,128>>
ASSUME D(TInt(CNone), I(-128)) = <<2,1,128>>
ASSUME D(TInt(CNone), I(-129)) = <<2,2,255,127>>
ASSUME D(TInt(CNone), I(256)) = <<2,2,1,0>>
ASSUME D(TBool, TRUE) = <<1,1,255>> /\ D(TBool, FALSE) = <<1,1,0>>
ASSUME D(TNull, VNull) = <<5,0>>
ASSUME D(TOid, <<1,2,840,113549>>) = <<6,6,42,134,72,134,247,13>>
ASSUME D(TOid, <<2,999,3>>) = <<6,3,136,55,3>>
ASSUME D(TRelOid, <<8571,3,2>>) = <<13,4,194,123,3,2>>
ASSUME D(TSeq(<<Comp("a", TInt(CNone), "M"), Comp("b", TBool, "M")>>, FALSE, <<>>),
         <<Pres(I(5)), Pres(TRUE)>>) = <<48,6,2,1,5,1,1,255>>
ASSUME D(TTag("C", 5, "I", TInt(CNone)), I(5)) = <<133,1,5>>
ASSUME D(TTag("C", 5, "E", TInt(CNone)), I(5)) = <<165,3,2,1,5>>
ASSUME D(TTag("C", 31, "I", TInt(CNone)), I(5)) = <<159,31,1,5>>
ASSUME D(TTag("A", 128, "I", TInt(CNone)), I(5)) = <<95,129,0,1,5>>
ASSUME D(TTag("P", 16384, "E", TNull), VNull) = <<255,129,128,0,2,5,0>>
ASSUME D(TTag("C", 1, "I", TTag("C", 2, "E", TNull)), VNull) = <<161,2,5,0>>
ASSUME D(TTag("C", 1, "E", TTag("C", 2, "I", TNull)), VNull) = <<161,2,130,0>>
ASSUME D(TReal, Dbl(63,240,0,0,0,0,0,0)) = <<9,3,128,0,1>>          \* 1.0
ASSUME D(TReal, Dbl(63,224,0,0,0,0,0,0)) = <<9,3,128,255,1>>        \* 0.5
ASSUME D(TReal, Dbl(64,36,0,0,0,0,0,0)) = <<9,3,128,1,5>>           \* 10.0
ASSUME D(TReal, Dbl(192,36,0,0,0,0,0,0)) = <<9,3,192,1,5>>          \* -10.0
ASSUME D(TReal, Dbl(0,0,0,0,0,0,0,0)) = <<9,0>>
ASSUME D(TReal, Dbl(128,0,0,0,0,0,0,0)) = <<9,1,67>>
ASSUME D(TReal, Dbl(127,240,0,0,0,0,0,0)) = <<9,1,64>>
ASSUME D(TReal, Dbl(255,240,0,0,0,0,0,0)) = <<9,1,65>>
ASSUME D(TReal, Dbl(127,248,0,0,0,0,0,0)) = <<9,1,66>>
ASSUME D(TReal, Dbl(0,0,0,0,0,0,0,1)) = <<9,4,129,251,206,1>>       \* 2^-1074
ASSUME D(TReal, Dbl(127,239,255,255,255,255,255,255)) = <<9,10,129,3,203,31,255,255,255,255,255,255>>  \* DBL_MAX
ASSUME D(TStr("UTF8", CNone, <<>>), <<233>>) = <<12,2,195,169>>
ASSUME D(TStr("UTF8", CNone, <<>>), <<8364, 65536>>) = <<12,7,226,130,172,240,144,128,128>>
ASSUME D(TStr("BMP", CNone, <<>>), <<65, 8364>>) = <<30,4,0,65,32,172>>
ASSUME D(TStr("Universal", CNone, <<>>), <<65>>) = <<28,4,0,0,0,65>>
ASSUME D(TStr("IA5", CNone, <<>>), <<65,66>>) = <<22,2,65,66>>
ASSUME D(TBits(CNone), [n |-> 3, o |-> <<160>>]) = <<3,2,5,160>>
ASSUME D(TBits(CNone), [n |-> 0, o |-> <<>>]) = <<3,1,0>>
ASSUME D(TOctets(CNone), Zeros(128)) = <<4,129,128>> \o Zeros(128)
ASSUME D(TOctets(CNone), Zeros(256)) = <<4,130,1,0>> \o Zeros(256)
ASSUME D(TOctets(CNone), Zeros(127)) = <<4,127>> \o Zeros(127)
ASSUME D(TSetOf(TInt(CNone), CNone), <<I(300), I(2), I(1)>>) = <<49,10,2,1,1,2,1,2,2,2,1,44>>
ASSUME D(TSet(<<Comp("a", TBool, "M"), Comp("b", TTag("C", 0, "I", TNull), "M"), Comp("c", TInt(CNone), "M")>>, FALSE, <<>>),
         <<Pres(TRUE), Pres(VNull), Pres(I(1))>>) = <<49,8,1,1,255,2,1,1,128,0>>
ASSUME D(TSeq(<<CompD("a", TInt(CNone), I(3)), Comp("b", TBool, "O")>>, FALSE, <<>>), <<Pres(I(3)), Absent>>) = <<48,0>>
ASSUME D(TSeq(<<CompD("a", TInt(CNone), I(3)), Comp("b", TBool, "O")>>, FALSE, <<>>), <<Pres(I(4)), Pres(FALSE)>>) = <<48,6,2,1,4,1,1,0>>
ASSUME D(TChoice(<<Comp("a", TInt(CNone), "M"), Comp("b", TBool, "M")>>, FALSE, <<>>), MkAlt("b", TRUE)) = <<1,1,255>>
ASSUME D(TEnum(<<EItem("a", 0), EItem("b", 300)>>, FALSE, <<>>), 300) = <<10,2,1,44>>

\* AUTOMATIC tagging and the IMPLICIT-on-CHOICE rule
ModA == [tagging |-> "AUTOMATIC", defs |-> <<
   [n |-> "C1", t |-> TChoice(<<Comp("x", TInt(CNone), "M"), Comp("y", TBool, "M")>>, FALSE, <<>>)],
   [n |-> "S1", t |-> TSeq(<<Comp("a", TInt(CNone), "M"), Comp("b", TRef("C1"), "M"), Comp("c", TNull, "O")>>, FALSE, <<>>)] >>]
EA == NormEnv(ModA)
ASSUME DER(EA, TRef("S1"), <<Pres(I(5)), Pres(MkAlt("y", TRUE)), Pres(VNull)>>)
         = <<48,10, 128,1,5, 161,3,129,1,255, 130,0>>
ASSUME DER(EA, TRef("C1"), MkAlt("x", I(1))) = <<128,1,1>>
=============================================================================
