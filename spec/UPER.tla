-------------------------------- MODULE UPER --------------------------------
(***************************************************************************)
(* X.691: the canonical UNALIGNED Packed Encoding Rules as a function      *)
(* UPER(env, T, v) from a value to octets (the complete encoding, 11.1).   *)
(* Bit strings are sequences over {0,1}.  Clause numbers refer to X.691.   *)
(* env is a normalised environment (tags are needed for the canonical      *)
(* order of CHOICE alternatives, 23.? / X.680 8.6).                        *)
(***************************************************************************)
EXTENDS BER

OctetsToBits(o) == AllBits(o)
BitsOfInt(n, w) == NatBits(NatOfInt(n), w)          \* n >= 0 as a w-bit field

\* ---- 11.5 constrained whole number (unaligned: minimal bit field for any range)
CWN(x, lb, ub) ==
  LET range1 == ISub(ub, lb)                         \* range - 1
  IN IF IsZero(range1) THEN <<>>
     ELSE NatBits(ISub(x, lb).mag, NatBitLen(range1.mag))
CWNi(n, lb, ub) == CWN(IOfInt(n), IOfInt(lb), IOfInt(ub))

\* ---- 11.9 general length determinant, one fragment (n < 16384)
LenDet(n) == IF n <= 127 THEN <<0>> \o BitsOfInt(n, 7)
             ELSE <<1, 0>> \o BitsOfInt(n, 14)

\* items: sequence of bit strings (one per octet / bit / character / element).
\* 11.9.3.8: fragments of m * 16K items, m in 1..4, then the rest; a multiple of 16K
\* is followed by an empty final fragment.
RECURSIVE Frag(_)
Frag(items) ==
  LET n == Len(items) IN
  IF n < 16384 THEN LenDet(n) \o ConcatAll(items)
  ELSE LET m == IF n \div 16384 > 4 THEN 4 ELSE n \div 16384
       IN <<1, 1>> \o BitsOfInt(m, 6) \o ConcatAll(SubSeq(items, 1, m * 16384))
          \o Frag(SubSeq(items, m * 16384 + 1, n))

\* ---- 11.7 / 11.8 semi-constrained and unconstrained whole numbers
OctetItems(o) == [i \in DOMAIN o |-> OctetBits(o[i], 8)]
SemiC(x, lb) == Frag(OctetItems(UnsignedMin(ISub(x, lb))))
Unc(x) == Frag(OctetItems(TwosC(x)))

\* ---- 11.6 normally small non-negative whole number
NSNNWN(n) == IF n <= 63 THEN <<0>> \o BitsOfInt(n, 6)
             ELSE <<1>> \o SemiC(IOfInt(n), IZero)

\* ---- 11.9.3.4 normally small length (n >= 1)
NSLen(n) == IF n <= 64 THEN <<0>> \o BitsOfInt(n - 1, 6) ELSE <<1>> \o LenDet(n)

\* ---- 11.1 complete encoding; 11.2 open type
Complete(bits) == IF bits = <<>> THEN <<0>> ELSE PackRight(bits)
OpenType(bits) == Frag(OctetItems(Complete(bits)))

\* ---- counted things under a SIZE constraint (16.5-16.8, 17.5-17.8, 20.5, 30.5)
\* e: effective size constraint; items: the encoded items
FitsRoot(e, n) == InRange(e, IOfInt(n))
UB64K == IOfInt(65536)
Counted(e, items, inRoot) ==
  LET n == Len(items)
      body ==
        IF e.has /\ inRoot /\ e.ub.k = "V" /\ ILt(e.ub.v, UB64K)
        THEN (IF e.lb.v = e.ub.v THEN ConcatAll(items)
              ELSE CWN(IOfInt(n), e.lb.v, e.ub.v) \o ConcatAll(items))
        ELSE Frag(items)
  IN IF e.has /\ e.ext THEN <<IF inRoot THEN 0 ELSE 1>> \o body ELSE body

\* ---- 13 INTEGER
IntBits(c, x) ==
  LET e == Eff(c)
      inRoot == InRange(e, x)
      root == IF e.lb.k = "V" /\ e.ub.k = "V" THEN CWN(x, e.lb.v, e.ub.v)
              ELSE IF e.lb.k = "V" THEN SemiC(x, e.lb.v)
              ELSE Unc(x)
  IN IF ~e.has THEN Unc(x)
     ELSE IF e.ext THEN (IF inRoot THEN <<0>> \o root ELSE <<1>> \o Unc(x))
     ELSE root

\* ---- 14 ENUMERATED: root items sorted by value
EnumBits(T, v) ==
  LET n == Len(T.root)
      idx == SortedIdx(n, LAMBDA i, j : T.root[i].v < T.root[j].v)
      inRoot == \E i \in 1..n : T.root[i].v = v
      pos == CHOOSE p \in 1..n : T.root[idx[p]].v = v
      apos == CHOOSE p \in DOMAIN T.adds : T.adds[p].v = v
      root == CWNi(pos - 1, 0, n - 1)
  IN IF T.ext THEN (IF inRoot THEN <<0>> \o root ELSE <<1>> \o NSNNWN(apos - 1))
     ELSE root

\* ---- 30 known-multiplier character strings
BuiltinAlphabet(st) ==
  CASE st = "IA5" -> 0..127 [] st = "Visible" -> 32..126 [] st = "Printable" -> PrintableChars
    [] st = "Numeric" -> NumericChars [] st = "UTCTime" -> 32..126 [] st = "GeneralizedTime" -> 32..126
KnownMultiplier(st) == st \in {"IA5", "Visible", "Printable", "Numeric", "BMP", "Universal", "UTCTime", "GeneralizedTime"}
RECURSIVE Log2Ceil(_)     \* smallest b with 2^b >= n   (n >= 1)
Log2Ceil(n) == IF n <= 1 THEN 0 ELSE 1 + Log2Ceil((n + 1) \div 2)
CharBits(T, ch) ==
  IF T.st = "BMP" /\ T.alpha = <<>> THEN BitsOfInt(ch, 16)
  ELSE IF T.st = "Universal" /\ T.alpha = <<>> THEN NatBits(NatOfInt(ch), 32)
  ELSE LET alpha == IF T.alpha # <<>> THEN SeqRange(T.alpha) ELSE BuiltinAlphabet(T.st)
           N == Cardinality(alpha)
           b == Log2Ceil(N)
           maxc == CHOOSE x \in alpha : \A y \in alpha : y <= x
           index == Cardinality({y \in alpha : y < ch})
       IN IF b = 0 THEN <<>>
          ELSE IF maxc <= 2^b - 1 THEN BitsOfInt(ch, b) ELSE BitsOfInt(index, b)

\* ---- the encoder ------------------------------------------------------------
RECURSIVE PerBits(_, _, _)
SeqLikeBits(env, T, v) ==
  LET root == T.comps
      adds == T.adds
      nr == Len(root)
      enc(c, e) == Encoded(env, c, e)
      \* 21: the root components of a SET are taken in canonical tag order
      ord == IF T.k = "SET" THEN CanonOrder(env, root) ELSE [i \in DOMAIN root |-> i]
      pres == ConcatAll([p \in DOMAIN root |-> IF root[ord[p]].o = "M" THEN <<>>
                                                 ELSE <<IF enc(root[ord[p]], v[ord[p]]) THEN 1 ELSE 0>>])
      rootBits == ConcatAll([p \in DOMAIN root |-> IF enc(root[ord[p]], v[ord[p]])
                                                     THEN PerBits(env, root[ord[p]].t, v[ord[p]][1]) ELSE <<>>])
      addPres == [j \in DOMAIN adds |-> enc(adds[j], v[nr + j])]
      anyAdd == \E j \in DOMAIN adds : addPres[j]
      addBits == NSLen(Len(adds))
                 \o [j \in DOMAIN adds |-> IF addPres[j] THEN 1 ELSE 0]
                 \o ConcatAll([j \in DOMAIN adds |-> IF addPres[j] THEN OpenType(PerBits(env, adds[j].t, v[nr + j][1])) ELSE <<>>])
  IN (IF T.ext THEN <<IF anyAdd THEN 1 ELSE 0>> ELSE <<>>) \o pres \o rootBits
     \o (IF T.ext /\ anyAdd THEN addBits ELSE <<>>)

PerBits(env, T0, v) ==
  LET T == Resolve(env, T0) IN
  CASE T.k = "BOOLEAN" -> <<IF v THEN 1 ELSE 0>>
    [] T.k = "NULL" -> <<>>
    [] T.k = "INTEGER" -> IntBits(T.c, v)
    [] T.k = "ENUM" -> EnumBits(T, v)
    [] T.k = "REAL" -> Frag(OctetItems(RealContents(v)))
    [] T.k = "BITS" -> LET e == EffSize(T.size)
                       IN Counted(e, [i \in 1..v.n |-> <<AllBits(v.o)[i]>>], FitsRoot(e, v.n))
    [] T.k = "OCTETS" -> LET e == EffSize(T.size) IN Counted(e, OctetItems(v), FitsRoot(e, Len(v)))
    [] T.k = "STRING" ->
         IF KnownMultiplier(T.st)
         THEN LET e == EffSize(T.size) IN Counted(e, [i \in DOMAIN v |-> CharBits(T, v[i])], FitsRoot(e, Len(v)))
         ELSE Frag(OctetItems(StringOctets(T.st, v)))
    [] T.k = "OID" -> Frag(OctetItems(OidContents(v)))
    [] T.k = "RELOID" -> Frag(OctetItems(RelOidContents(v)))
    [] T.k \in {"SEQUENCE", "SET"} -> SeqLikeBits(env, T, v)
    [] T.k = "OPEN" -> OpenType(PerBits(env, CompByName(T, AltOf(v)).t, AltVal(v)))      \* 11.2
    [] T.k = "CHOICE" ->
         LET n == Len(T.comps)
             order == CanonOrder(env, T.comps)              \* canonical position -> textual index
             inRoot == \E i \in 1..n : T.comps[i].n = AltOf(v)
             pos == CHOOSE p \in 1..n : T.comps[order[p]].n = AltOf(v)
             apos == CHOOSE p \in DOMAIN T.adds : T.adds[p].n = AltOf(v)
             body == PerBits(env, CompByName(T, AltOf(v)).t, AltVal(v))
         IN IF inRoot THEN (IF T.ext THEN <<0>> ELSE <<>>) \o CWNi(pos - 1, 0, n - 1) \o body
            ELSE <<1>> \o NSNNWN(apos - 1) \o OpenType(body)
    [] T.k = "SEQOF" -> LET e == EffSize(T.size)
                        IN Counted(e, [i \in DOMAIN v |-> PerBits(env, T.t, v[i])], FitsRoot(e, Len(v)))
    [] T.k = "SETOF" ->
         LET e == EffSize(T.size)
             encs == [i \in DOMAIN v |-> PerBits(env, T.t, v[i])]
             idx == SortedIdx(Len(v), LAMBDA i, j : OctLess(PackRight(encs[i]), PackRight(encs[j])))
         IN Counted(e, [p \in DOMAIN v |-> encs[idx[p]]], FitsRoot(e, Len(v)))

UPER(env, T, v) == Complete(PerBits(env, T, v))
=============================================================================
