--------------------------- MODULE MC_Constraints ---------------------------
(***************************************************************************)
(* C09: constraint expression trees over a small integer universe and      *)
(* their PER / OER visible effective constraint (Asn1Types!Eff, OER!OerEff)*)
(* against what asn1c computes (asn1c -E -F -print-constraints).           *)
(* Model-level: the set-theoretic semantics Sat and the interval Eff agree *)
(* (every member of the root lies within the effective bounds; the bounds  *)
(* are attained unless an EXCEPT removed them).                            *)
(***************************************************************************)
EXTENDS OER, Values, TLC, Json, IOUtils

CONSTANTS Depth, Part, Parts     \* expression depth (1 or 2); the universe is cut into Parts slices

Pts == <<BMin, BI(-2), BI(0), BI(3), BI(5), BMax>>
Leaves == {CRange(Pts[i], Pts[j]) : i \in 1..6, j \in 1..6} \cap
          {c \in {CRange(Pts[i], Pts[j]) : i \in 1..6, j \in 1..6} :
             /\ c.lb.k # "MAX" /\ c.ub.k # "MIN"
             /\ (c.lb.k = "V" /\ c.ub.k = "V" => ILe(c.lb.v, c.ub.v))}
U == {IOfInt(n) : n \in -4..7}          \* finite window in which emptiness is decided
SemU(c) == {x \in U : Sat(c, x, BMin, BMax)}
Bin == {CUnion(a, b) : a \in Leaves, b \in Leaves} \cup {CInter(a, b) : a \in Leaves, b \in Leaves}
       \cup {CExcept(a, b) : a \in Leaves, b \in Leaves} \cup {CSerial(a, b) : a \in Leaves, b \in Leaves}
AllEx == {CAllExcept(b) : b \in Leaves} \cup {CSerial(a, CAllExcept(b)) : a \in Leaves, b \in Leaves}
Exts == {CExt(a) : a \in Leaves} \cup {CExtAdd(a, b) : a \in Leaves, b \in Leaves}
        \cup {CSerial(CExt(a), b) : a \in Leaves, b \in Leaves} \cup {CSerial(a, CExt(b)) : a \in Leaves, b \in Leaves}
        \* (an extension marker cannot occur inside a union / intersection: X.680 ElementSetSpecs)
\* a serially applied constraint must stay within its parent (X.680 50.?: asn1c rightly rejects others)
Within(c) == c.b.op = "allexcept" \/ LET p == EffIn(c.a, BMin, BMax) IN {x \in U : Sat(c.b, x, p.lb, p.ub)} \subseteq SemU(c.a)
NonEmpty(c) == SemU(c) # {} /\ (c.op = "serial" => SemU(c.a) # {} /\ Within(c))
               /\ (c.op = "ext" /\ c.b.op # "none" => SemU(c.b) # {} /\ SemU(c.a) # {})
Exprs == {c \in (IF Depth = 1 THEN Leaves \cup {CExt(a) : a \in Leaves} ELSE Leaves \cup Bin \cup Exts \cup AllEx) : NonEmpty(c)}
Indexed == SetSeq(Exprs)
Mine == {i \in DOMAIN Indexed : i % Parts = Part}

VARIABLES ex, l
Init == ex \in {Indexed[i] : i \in Mine} /\ l = 0
Next == FALSE /\ UNCHANGED <<ex, l>>

\* the effective constraint as a comparable record: bounds as decimal-free BigInt bounds
EffRec(c) == LET e == Eff(c) IN [has |-> e.has, lb |-> e.lb, ub |-> e.ub, ext |-> e.ext]
OerRec(c) == LET e == OerEff(c) IN [has |-> e.has, lb |-> e.lb, ub |-> e.ub]
Export == PrintT(<<"SCN", ToJson([expr |-> ex, per |-> EffRec(ex), oer |-> OerRec(ex)])>>)

\* model-level: interval abstraction is sound w.r.t. the set semantics (on the window U)
Sound == LET e == Eff(ex) IN
         /\ (e.has /\ ~e.ext => \A x \in SemU(ex) : InRange(e, x))
         /\ (~e.has => ex.op \in {"none", "allexcept"})

\* ---- judge ---------------------------------------------------------------------------
Scn == ndJsonDeserialize(IOEnv.VERIF_SCENARIOS)
Log == ndJsonDeserialize(IOEnv.VERIF_TRACE)
When(c, name) == IF c THEN {name} ELSE {}
Ev == Log[l]
\* printed: [lb, ub, ext] with bounds in the spec's vocabulary, or has = FALSE for (MIN..MAX) / nothing
CFaults(sc, ev) ==
  LET p == EffRec(sc.expr) o == OerRec(sc.expr) IN
  When(ev.exit # 0, "compiler-rejected")
  \cup (IF ev.exit # 0 THEN {} ELSE
        When(ev.per.lb # p.lb \/ ev.per.ub # p.ub, "per-visible-bounds-differ")
        \cup When(ev.per.ext # p.ext, "per-visible-extensibility-differs")
        \cup When(ev.oer.lb # o.lb \/ ev.oer.ub # o.ub, "oer-visible-bounds-differ"))
TInit == l = 1 /\ ex = CNone
TStep == /\ l <= Len(Log)
         /\ LET f == CFaults(Scn[Ev.id], Ev) IN
              f # {} => PrintT(<<"MISMATCH", ToJson([id |-> Ev.id, i |-> 1, l |-> l, reasons |-> SetSeq(f)])>>)
         /\ l' = l + 1 /\ UNCHANGED ex
TNext == TStep
TraceAccepted == TLCGet("stats").diameter - 1 = Len(Log)
=============================================================================
