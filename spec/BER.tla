-------------------------------- MODULE BER --------------------------------
(***************************************************************************)
(* X.690: the Distinguished Encoding Rules as a function DER(env, T, v),   *)
(* transcribed from the standard (identifier octets 8.1.2, length octets   *)
(* 8.1.3 / 10.1, contents octets 8.2 ff., canonical restrictions 10, 11).  *)
(* env is a normalised type environment (Asn1Tags!NormEnv).                *)
(***************************************************************************)
EXTENDS Asn1Tags

RECURSIVE ConcatAll(_)
ConcatAll(ss) == IF ss = <<>> THEN <<>> ELSE Head(ss) \o ConcatAll(Tail(ss))

\* ---- identifier and length octets -------------------------------------------
RECURSIVE Base128Hi(_)     \* leading groups, each with the continuation bit
Base128Hi(n) == IF n = 0 THEN <<>> ELSE Base128Hi(n \div 128) \o <<128 + (n % 128)>>
Base128(n) == Base128Hi(n \div 128) \o <<n % 128>>

ClassBits(cl) == CASE cl = "U" -> 0 [] cl = "A" -> 64 [] cl = "C" -> 128 [] cl = "P" -> 192
Ident(tag, constructed) ==
  LET b == ClassBits(tag.cl) + (IF constructed THEN 32 ELSE 0)
  IN IF tag.num < 31 THEN <<b + tag.num>> ELSE <<b + 31>> \o Base128(tag.num)

DerLen(n) == IF n < 128 THEN <<n>>
             ELSE LET o == NatOfInt(n) IN <<128 + Len(o)>> \o o

TLV(tag, constructed, body) == Ident(tag, constructed) \o DerLen(Len(body)) \o body

\* ---- contents octets of primitive types -------------------------------------
\* REAL: v is the 8 octets of an IEEE-754 binary64; X.690 8.5 with the 11.3
\* restrictions: base 2, mantissa odd (or 0), minimal exponent and mantissa octets.
RECURSIVE StripTrailingZeroBits(_)
StripTrailingZeroBits(bits) ==
  IF bits # <<>> /\ bits[Len(bits)] = 0 THEN StripTrailingZeroBits(SubSeq(bits, 1, Len(bits) - 1)) ELSE bits
RECURSIVE StripLeadingZeroBits(_)
StripLeadingZeroBits(bits) == IF bits # <<>> /\ Head(bits) = 0 THEN StripLeadingZeroBits(Tail(bits)) ELSE bits
RECURSIVE BitsToInt(_)
BitsToInt(bits) == IF bits = <<>> THEN 0 ELSE 2 * BitsToInt(SubSeq(bits, 1, Len(bits) - 1)) + bits[Len(bits)]
\* pack bits (big-endian) into octets, padding on the LEFT to a whole number of octets
PackLeft(bits) == LET pad == (8 - (Len(bits) % 8)) % 8
                      b == Zeros(pad) \o bits
                  IN [i \in 1..(Len(b) \div 8) |-> BitsToInt(SubSeq(b, 8 * i - 7, 8 * i))]
\* pack bits into octets, padding on the RIGHT with zero bits
PackRight(bits) == LET pad == (8 - (Len(bits) % 8)) % 8
                       b == bits \o Zeros(pad)
                   IN [i \in 1..(Len(b) \div 8) |-> BitsToInt(SubSeq(b, 8 * i - 7, 8 * i))]

RealContents(d) ==
  LET bits == AllBits(d)
      sign == bits[1]
      e == BitsToInt(SubSeq(bits, 2, 12))
      frac == SubSeq(bits, 13, 64)
      fracZero == \A i \in 1..52 : frac[i] = 0
  IN IF e = 0 /\ fracZero THEN (IF sign = 0 THEN <<>> ELSE <<67>>)
     ELSE IF e = 2047 THEN (IF fracZero THEN (IF sign = 0 THEN <<64>> ELSE <<65>>) ELSE <<66>>)
     ELSE LET mant0 == IF e = 0 THEN frac ELSE <<1>> \o frac           \* integer mantissa
              exp0 == IF e = 0 THEN -1074 ELSE e - 1075
              mant1 == StripTrailingZeroBits(mant0)
              exp == exp0 + (Len(mant0) - Len(mant1))
              mant == PackLeft(StripLeadingZeroBits(mant1))
              eo == TwosC(IOfInt(exp))
              first == 128 + (IF sign = 1 THEN 64 ELSE 0) + (Len(eo) - 1)
          IN <<first>> \o eo \o mant

RECURSIVE Utf8(_)
Utf8Char(c) ==
  IF c < 128 THEN <<c>>
  ELSE IF c < 2048 THEN <<192 + (c \div 64), 128 + (c % 64)>>
  ELSE IF c < 65536 THEN <<224 + (c \div 4096), 128 + ((c \div 64) % 64), 128 + (c % 64)>>
  ELSE <<240 + (c \div 262144), 128 + ((c \div 4096) % 64), 128 + ((c \div 64) % 64), 128 + (c % 64)>>
Utf8(s) == IF s = <<>> THEN <<>> ELSE Utf8Char(Head(s)) \o Utf8(Tail(s))

StringOctets(st, s) ==
  CASE st = "UTF8" -> Utf8(s)
    [] st = "BMP" -> ConcatAll([i \in DOMAIN s |-> <<s[i] \div 256, s[i] % 256>>])
    [] st = "Universal" -> ConcatAll([i \in DOMAIN s |->
                              <<s[i] \div 16777216, (s[i] \div 65536) % 256, (s[i] \div 256) % 256, s[i] % 256>>])
    [] OTHER -> s

OidContents(arcs) == Base128(40 * arcs[1] + arcs[2]) \o
                     ConcatAll([i \in 1..(Len(arcs) - 2) |-> Base128(arcs[i + 2])])
RelOidContents(arcs) == ConcatAll([i \in DOMAIN arcs |-> Base128(arcs[i])])

BitsContents(b) == <<(8 - (b.n % 8)) % 8>> \o b.o

Contents(T, v) ==
  CASE T.k = "BOOLEAN" -> IF v THEN <<255>> ELSE <<0>>
    [] T.k = "NULL" -> <<>>
    [] T.k = "INTEGER" -> TwosC(v)
    [] T.k = "ENUM" -> TwosC(IOfInt(v))
    [] T.k = "REAL" -> RealContents(v)
    [] T.k = "BITS" -> BitsContents(v)
    [] T.k = "OCTETS" -> v
    [] T.k = "STRING" -> StringOctets(T.st, CanonTime(T.st, v))     \* DER: X.690 11.7 / 11.8 for the time types
    [] T.k = "OID" -> OidContents(v)
    [] T.k = "RELOID" -> RelOidContents(v)

\* ---- octet string order (X.690 11.6: shorter padded with trailing zero octets)
RECURSIVE OctLess(_, _)
OctLess(a, b) ==
  IF a = <<>> /\ b = <<>> THEN FALSE
  ELSE LET x == IF a = <<>> THEN 0 ELSE Head(a)
           y == IF b = <<>> THEN 0 ELSE Head(b)
       IN IF x # y THEN x < y
          ELSE OctLess(IF a = <<>> THEN <<>> ELSE Tail(a), IF b = <<>> THEN <<>> ELSE Tail(b))
SortOctetStrings(ss) ==
  LET idx == SortedIdx(Len(ss), LAMBDA i, j : OctLess(ss[i], ss[j]))
  IN [p \in 1..Len(ss) |-> ss[idx[p]]]

\* ---- the encoder ------------------------------------------------------------
NoTag == Tag("-", 0)
TagOr(impl, T) == IF impl = NoTag THEN UniversalTag(T) ELSE impl

\* the components of a SEQUENCE/SET value that DER actually encodes (11.5)
Encoded(env, c, e) == IsPres(e) /\ (c.o = "D" => ~SameValue(env, c.t, e[1], c.d))

RECURSIVE DerEnc(_, _, _, _)
CompEncs(env, T, v) ==
  LET cs == AllComps(T)
  IN [i \in DOMAIN cs |-> IF Encoded(env, cs[i], v[i]) THEN DerEnc(env, cs[i].t, v[i][1], NoTag) ELSE <<>>]
DerEnc(env, T, v, impl) ==
  CASE T.k = "TAGGED" ->
         LET tg == IF impl = NoTag THEN Tag(T.cl, T.num) ELSE impl
         IN IF T.mode = "E" THEN TLV(tg, TRUE, DerEnc(env, T.t, v, NoTag))
            ELSE DerEnc(env, T.t, v, tg)
    [] IsRef(T) -> DerEnc(env, Follow(env, T), v, impl)
    [] ChoiceLike(T.k) -> DerEnc(env, CompByName(T, AltOf(v)).t, AltVal(v), NoTag)      \* open type: the value's own encoding
    [] T.k = "SEQUENCE" -> TLV(TagOr(impl, T), TRUE, ConcatAll(CompEncs(env, T, v)))
    [] T.k = "SET" ->
         LET cs == AllComps(T)
             encs == CompEncs(env, T, v)
             \* canonical order: by the tag each present component actually carries
             tagOf(i) == IF encs[i] = <<>> THEN Tag("P", 2147483647)
                         ELSE ValueTag(env, cs[i].t, v[i][1])
             idx == SortedIdx(Len(cs), LAMBDA i, j : TagLess(tagOf(i), tagOf(j)))
         IN TLV(TagOr(impl, T), TRUE, ConcatAll([p \in DOMAIN cs |-> encs[idx[p]]]))
    [] T.k = "SEQOF" -> TLV(TagOr(impl, T), TRUE,
                            ConcatAll([i \in DOMAIN v |-> DerEnc(env, T.t, v[i], NoTag)]))
    [] T.k = "SETOF" -> TLV(TagOr(impl, T), TRUE,
                            ConcatAll(SortOctetStrings([i \in DOMAIN v |-> DerEnc(env, T.t, v[i], NoTag)])))
    [] OTHER -> TLV(TagOr(impl, T), FALSE, Contents(T, v))

DER(env, T, v) == DerEnc(env, T, v, NoTag)
=============================================================================
