----------------------------- MODULE Asn1Types -----------------------------
(***************************************************************************)
(* Abstract syntax of the ASN.1 type algebra that the verification covers, *)
(* the constraint expressions with their effective (PER / OER visible)     *)
(* meaning, abstract values, validity, and value normalisation.            *)
(*                                                                         *)
(* Type terms are records with a field k (kind); the same terms are        *)
(* exported as JSON, rendered to ASN.1 text by the glue, and read back by  *)
(* the trace specifications.                                               *)
(***************************************************************************)
EXTENDS BigInt, TimeText, FiniteSets, TLC

\* ---- bounds and constraint expressions ------------------------------------
BMin == [k |-> "MIN"]
BMax == [k |-> "MAX"]
BV(x) == [k |-> "V", v |-> x]              \* x is a BigInt
BI(n) == BV(IOfInt(n))

CNone == [op |-> "none"]
CRange(lb, ub) == [op |-> "range", lb |-> lb, ub |-> ub]
CVal(b) == CRange(b, b)
CExt(a) == [op |-> "ext", a |-> a, b |-> CNone]            \* ( a, ... )
CExtAdd(a, b) == [op |-> "ext", a |-> a, b |-> b]          \* ( a, ..., b )
CUnion(a, b) == [op |-> "union", a |-> a, b |-> b]
CInter(a, b) == [op |-> "inter", a |-> a, b |-> b]
CExcept(a, b) == [op |-> "except", a |-> a, b |-> b]
CAllExcept(a) == [op |-> "allexcept", a |-> a, b |-> CNone]   \* ( ALL EXCEPT a ): every value of the parent but those of a
CSerial(a, b) == [op |-> "serial", a |-> a, b |-> b]       \* T(a)(b)

\* lower bounds: MIN is -infinity, upper bounds: MAX is +infinity
LbLe(x, y) == x.k = "MIN" \/ (y.k = "V" /\ x.k = "V" /\ ILe(x.v, y.v))
UbLe(x, y) == y.k = "MAX" \/ (y.k = "V" /\ x.k = "V" /\ ILe(x.v, y.v))
LbMin(x, y) == IF LbLe(x, y) THEN x ELSE y
LbMax(x, y) == IF LbLe(x, y) THEN y ELSE x
UbMin(x, y) == IF UbLe(x, y) THEN x ELSE y
UbMax(x, y) == IF UbLe(x, y) THEN y ELSE x

Unconstrained == [has |-> FALSE, lb |-> BMin, ub |-> BMax, ext |-> FALSE]

\* Effective constraint (X.680 Annex G, X.691 10.3): only the outer bounds of
\* the root and the extensibility are PER-visible for INTEGER values and SIZE.
\* A bound MIN/MAX inside a range is resolved against the parent bounds plo/phi.
RECURSIVE EffIn(_, _, _)
EffIn(c, plo, phi) ==
  CASE c.op = "none"  -> [has |-> FALSE, lb |-> plo, ub |-> phi, ext |-> FALSE]
    [] c.op = "range" -> [has |-> TRUE,
                          lb |-> IF c.lb.k = "MIN" THEN plo ELSE IF c.lb.k = "MAX" THEN phi ELSE c.lb,
                          ub |-> IF c.ub.k = "MAX" THEN phi ELSE IF c.ub.k = "MIN" THEN plo ELSE c.ub,
                          ext |-> FALSE]
    [] c.op = "ext"   -> [EffIn(c.a, plo, phi) EXCEPT !.ext = TRUE, !.has = TRUE]
    [] c.op = "union" -> LET x == EffIn(c.a, plo, phi) y == EffIn(c.b, plo, phi)
                         IN [has |-> TRUE, lb |-> LbMin(x.lb, y.lb), ub |-> UbMax(x.ub, y.ub),
                             ext |-> x.ext \/ y.ext]
    [] c.op = "inter" -> LET x == EffIn(c.a, plo, phi) y == EffIn(c.b, plo, phi)
                         IN [has |-> TRUE, lb |-> LbMax(x.lb, y.lb), ub |-> UbMin(x.ub, y.ub),
                             ext |-> x.ext \/ y.ext]
    [] c.op = "except" -> EffIn(c.a, plo, phi)
    \* X.691 10.3 / X.696: the set of excluded values is not visible: the parent's values remain
    [] c.op = "allexcept" -> [has |-> FALSE, lb |-> plo, ub |-> phi, ext |-> FALSE]
    [] c.op = "serial" -> LET x == EffIn(c.a, plo, phi)
                              y == EffIn(c.b, x.lb, x.ub)
                          IN [has |-> TRUE, lb |-> LbMax(x.lb, y.lb), ub |-> UbMin(x.ub, y.ub),
                              ext |-> y.ext]
Eff(c) == LET e == EffIn(c, BMin, BMax)
          IN IF e.has THEN e ELSE Unconstrained
\* SIZE constraints live over the naturals: the parent lower bound is 0
EffSize(c) == LET e == EffIn(c, BI(0), BMax)
              IN IF e.has THEN e ELSE [has |-> FALSE, lb |-> BI(0), ub |-> BMax, ext |-> FALSE]

\* OER-visible constraint (X.696 8.2): an extensible constraint is not OER-visible
\* (an extensible element set is not visible; in a serial application T(a)(b) the visible parts are
\* intersected: an invisible b leaves a, an invisible a leaves b relative to the unconstrained parent)
RECURSIVE OerEffIn(_, _, _)
OerEffIn(c, plo, phi) ==
  CASE c.op = "ext" -> [has |-> FALSE, lb |-> plo, ub |-> phi, ext |-> FALSE]
    [] c.op = "serial" -> LET x == OerEffIn(c.a, plo, phi)
                              pa == EffIn(c.a, plo, phi)           \* MIN / MAX in b denote the parent's bounds, visible or not
                              y == OerEffIn(c.b, pa.lb, pa.ub)
                          IN IF ~y.has THEN x
                             ELSE IF ~x.has THEN y
                             ELSE [has |-> TRUE, lb |-> LbMax(x.lb, y.lb), ub |-> UbMin(x.ub, y.ub), ext |-> FALSE]
    [] c.op \in {"union", "inter"} ->
         LET x == OerEffIn(c.a, plo, phi) y == OerEffIn(c.b, plo, phi)
         IN IF c.op = "union"
            THEN (IF x.has /\ y.has THEN [has |-> TRUE, lb |-> LbMin(x.lb, y.lb), ub |-> UbMax(x.ub, y.ub), ext |-> FALSE]
                  ELSE [has |-> FALSE, lb |-> plo, ub |-> phi, ext |-> FALSE])
            ELSE (IF x.has /\ y.has THEN [has |-> TRUE, lb |-> LbMax(x.lb, y.lb), ub |-> UbMin(x.ub, y.ub), ext |-> FALSE]
                  ELSE IF x.has THEN x ELSE y)
    [] c.op = "except" -> OerEffIn(c.a, plo, phi)
    [] c.op = "allexcept" -> [has |-> FALSE, lb |-> plo, ub |-> phi, ext |-> FALSE]
    [] OTHER -> [EffIn(c, plo, phi) EXCEPT !.ext = FALSE]
OerEff(c) == LET e == OerEffIn(c, BMin, BMax) IN IF e.has THEN e ELSE Unconstrained

InRange(e, x) == /\ (e.lb.k = "MIN" \/ ILe(e.lb.v, x))
                 /\ (e.ub.k = "MAX" \/ ILe(x, e.ub.v))

\* exact set semantics of an expression (used by validity, C08): membership
RECURSIVE Sat(_, _, _, _)
Sat(c, x, plo, phi) ==
  CASE c.op = "none"  -> TRUE
    [] c.op = "range" -> InRange(EffIn(c, plo, phi), x)
    [] c.op = "ext"   -> Sat(c.a, x, plo, phi) \/ (c.b.op # "none" /\ Sat(c.b, x, plo, phi))
    [] c.op = "union" -> Sat(c.a, x, plo, phi) \/ Sat(c.b, x, plo, phi)
    [] c.op = "inter" -> Sat(c.a, x, plo, phi) /\ Sat(c.b, x, plo, phi)
    [] c.op = "except" -> Sat(c.a, x, plo, phi) /\ ~Sat(c.b, x, plo, phi)
    [] c.op = "allexcept" -> ~Sat(c.a, x, plo, phi)
    [] c.op = "serial" -> LET p == EffIn(c.a, plo, phi)
                          IN Sat(c.a, x, plo, phi) /\ Sat(c.b, x, p.lb, p.ub)
IsExtensible(c) == Eff(c).ext

\* ---- type terms -------------------------------------------------------------
TBool == [k |-> "BOOLEAN"]
TNull == [k |-> "NULL"]
TInt(c) == [k |-> "INTEGER", c |-> c]
TEnum(root, ext, adds) == [k |-> "ENUM", root |-> root, ext |-> ext, adds |-> adds]
EItem(n, v) == [n |-> n, v |-> v]
TReal == [k |-> "REAL"]
TBits(size) == [k |-> "BITS", size |-> size]
TOctets(size) == [k |-> "OCTETS", size |-> size]
TStr(st, size, alpha) == [k |-> "STRING", st |-> st, size |-> size, alpha |-> alpha]
TOid == [k |-> "OID"]
TRelOid == [k |-> "RELOID"]
Comp(n, t, o) == [n |-> n, t |-> t, o |-> o]                         \* o in {"M","O"}
CompD(n, t, d) == [n |-> n, t |-> t, o |-> "D", d |-> d]             \* DEFAULT d
TSeq(comps, ext, adds) == [k |-> "SEQUENCE", comps |-> comps, ext |-> ext, adds |-> adds]
TSet(comps, ext, adds) == [k |-> "SET", comps |-> comps, ext |-> ext, adds |-> adds]
TChoice(alts, ext, adds) == [k |-> "CHOICE", comps |-> alts, ext |-> ext, adds |-> adds]
TSeqOf(t, size) == [k |-> "SEQOF", t |-> t, size |-> size]
TSetOf(t, size) == [k |-> "SETOF", t |-> t, size |-> size]
TTag(cl, num, mode, t) == [k |-> "TAGGED", cl |-> cl, num |-> num, mode |-> mode, t |-> t]
TRef(n) == [k |-> "REF", n |-> n]
\* Information object classes (X.681 / X.682, C18).  An open type governed by an object set: the rows pair an
\* identifier value with a type; comps names the rows by their type name (as the XML tag and the C union do).
\* TIoSeq is the SEQUENCE { id CLS.&id({Set}), val CLS.&Type({Set}{@id}) }.
\* The identifier field is an INTEGER (Row) or an OBJECT IDENTIFIER (RowO); one kind per object set.
Row(id, n, t) == [n |-> n, t |-> t, o |-> "M", id |-> id, oid |-> <<>>]
RowO(arcs, n, t) == [n |-> n, t |-> t, o |-> "M", id |-> 0, oid |-> arcs]
TOpen(rows, ext) == [k |-> "OPEN", comps |-> rows, ext |-> ext, adds |-> <<>>]
TIoId == [k |-> "INTEGER", c |-> CNone, io |-> TRUE]
TIoOid == [k |-> "OID", io |-> TRUE]
OidRows(rows) == rows[1].oid # <<>>
TIoSeq(rows, ext, sfx) == [k |-> "SEQUENCE", comps |-> <<Comp("id" \o sfx, IF OidRows(rows) THEN TIoOid ELSE TIoId, "M"),
                                                        Comp("val" \o sfx, TOpen(rows, ext), "M")>>,
                            ext |-> FALSE, adds |-> <<>>, ioc |-> TRUE]
\* the same with an OPTIONAL open type component
TIoSeqOpt(rows, ext, sfx) == [TIoSeq(rows, ext, sfx) EXCEPT !.comps[2].o = "O"]
IsIoSeq(T) == T.k = "SEQUENCE" /\ "ioc" \in DOMAIN T
ChoiceLike(k) == k \in {"CHOICE", "OPEN"}

StringKinds == {"IA5", "Visible", "Printable", "Numeric", "UTF8", "BMP", "Universal",
                "UTCTime", "GeneralizedTime"}
IsConstructedKind(k) == k \in {"SEQUENCE", "SET", "CHOICE", "SEQOF", "SETOF"}

SeqRange(s) == {s[i] : i \in DOMAIN s}
EnvOf(mod) == [n \in {mod.defs[i].n : i \in DOMAIN mod.defs} |->
                 (CHOOSE d \in SeqRange(mod.defs) : d.n = n).t]

\* a constrained reference  T ::= Base (constraint)  (subtype chains through type references, C09)
TRefC(n, c) == [k |-> "REFC", n |-> n, c |-> c]
IsRef(T) == T.k \in {"REF", "REFC"}
\* serial application of c to the INTEGER value / SIZE constraint reached through references and tags
RECURSIVE WithC(_, _)
WithC(B, c) ==
  CASE B.k = "INTEGER" -> [B EXCEPT !.c = IF @.op = "none" THEN c ELSE CSerial(@, c)]
    [] B.k \in {"OCTETS", "BITS", "STRING", "SEQOF", "SETOF"} -> [B EXCEPT !.size = IF @.op = "none" THEN c ELSE CSerial(@, c)]
    [] B.k = "REF" -> TRefC(B.n, c)
    [] B.k = "REFC" -> [B EXCEPT !.c = CSerial(@, c)]
    [] B.k = "TAGGED" -> [B EXCEPT !.t = WithC(@, c)]
    [] OTHER -> B
\* one step along a reference
Follow(env, T) == IF T.k = "REF" THEN env[T.n] ELSE WithC(env[T.n], T.c)

\* strip references and tags
RECURSIVE Resolve(_, _)
Resolve(env, T) == IF IsRef(T) THEN Resolve(env, Follow(env, T))
                   ELSE IF T.k = "TAGGED" THEN Resolve(env, T.t)
                   ELSE T
RECURSIVE Deref(_, _)
Deref(env, T) == IF IsRef(T) THEN Deref(env, Follow(env, T)) ELSE T

AllComps(T) == T.comps \o T.adds
CompNames(T) == {AllComps(T)[i].n : i \in DOMAIN AllComps(T)}
CompByName(T, n) == CHOOSE c \in SeqRange(AllComps(T)) : c.n = n

\* ---- built-in alphabets -----------------------------------------------------
PrintableChars == (65..90) \cup (97..122) \cup (48..57) \cup {32, 39, 40, 41, 43, 44, 45, 46, 47, 58, 61, 63}
NumericChars == (48..57) \cup {32}
\* characters of the type (not further restricted), as a predicate
InBuiltinAlphabet(st, ch) ==
  CASE st = "IA5" -> ch \in 0..127
    [] st = "Visible" -> ch \in 32..126
    [] st = "Printable" -> ch \in PrintableChars
    [] st = "Numeric" -> ch \in NumericChars
    [] st = "UTF8" -> ch \in 0..1114111 /\ ch \notin 55296..57343
    [] st = "BMP" -> ch \in 0..65535
    [] st = "Universal" -> ch \in 0..2147483647
    [] st = "UTCTime" -> ch \in 32..126
    [] st = "GeneralizedTime" -> ch \in 32..126
\* alpha = <<>> means no FROM constraint; otherwise the sorted permitted characters
InAlphabet(T, ch) == InBuiltinAlphabet(T.st, ch) /\ (T.alpha = <<>> \/ ch \in SeqRange(T.alpha))

\* ---- values -----------------------------------------------------------------
\* BOOLEAN: TRUE/FALSE; NULL: "NULL"; INTEGER: BigInt; ENUM: the numeric value (Int);
\* REAL: the 8 octets of the IEEE-754 binary64 pattern; BITS: [n |-> bits, o |-> octets];
\* OCTETS: octets; STRING: code points; OID/RELOID: arcs (Int < 2^31);
\* SEQUENCE/SET: one entry per component (root then additions, textual order), <<>> when
\* absent and <<value>> when present; CHOICE: <<alternative name, value>>;
\* SEQOF/SETOF: sequence of values.  (Positional forms keep TLC's value comparison
\* well-typed: values of different component types are never compared.)
Absent == <<>>
Pres(x) == <<x>>
IsPres(e) == Len(e) = 1
AltOf(v) == v[1]
AltVal(v) == v[2]
MkAlt(n, x) == <<n, x>>
VNull == "NULL"

\* fill absent DEFAULT components with their default values, recursively
RECURSIVE NormVal(_, _, _)
NormVal(env, T0, v) ==
  LET T == Resolve(env, T0) IN
  CASE T.k \in {"SEQUENCE", "SET"} ->
         LET cs == AllComps(T)
         IN [i \in DOMAIN cs |->
               IF IsPres(v[i]) THEN Pres(NormVal(env, cs[i].t, v[i][1]))
               ELSE IF cs[i].o = "D" THEN Pres(NormVal(env, cs[i].t, cs[i].d))
               ELSE Absent]
    [] ChoiceLike(T.k) -> MkAlt(AltOf(v), NormVal(env, CompByName(T, AltOf(v)).t, AltVal(v)))
    [] T.k \in {"SEQOF", "SETOF"} -> [i \in DOMAIN v |-> NormVal(env, T.t, v[i])]
    \* time values are instants: every text form of the same instant is the same value (TimeText.tla)
    [] T.k = "STRING" -> CanonTime(T.st, v)
    [] OTHER -> v

\* equality of abstract values: absent DEFAULT components denote the default value,
\* SET OF values are multisets
RECURSIVE SameValue(_, _, _, _)
SameValue(env, T0, a, b) ==
  LET T == Resolve(env, T0) IN
  CASE T.k \in {"SEQUENCE", "SET"} ->
         LET cs == AllComps(T)
             eff(v, i) == IF IsPres(v[i]) THEN v[i] ELSE IF cs[i].o = "D" THEN Pres(cs[i].d) ELSE Absent
         IN /\ Len(a) = Len(cs) /\ Len(b) = Len(cs)
            /\ \A i \in DOMAIN cs :
                 LET x == eff(a, i) y == eff(b, i)
                 IN IsPres(x) = IsPres(y) /\ (IsPres(x) => SameValue(env, cs[i].t, x[1], y[1]))
    [] ChoiceLike(T.k) -> /\ AltOf(a) = AltOf(b)
                         /\ SameValue(env, CompByName(T, AltOf(a)).t, AltVal(a), AltVal(b))
    [] T.k = "SEQOF" -> Len(a) = Len(b) /\ \A i \in DOMAIN a : SameValue(env, T.t, a[i], b[i])
    [] T.k = "SETOF" ->
         /\ Len(a) = Len(b)
         /\ \A i \in DOMAIN a :
              Cardinality({j \in DOMAIN a : SameValue(env, T.t, a[j], a[i])})
                = Cardinality({j \in DOMAIN b : SameValue(env, T.t, b[j], a[i])})
    [] T.k = "STRING" -> CanonTime(T.st, a) = CanonTime(T.st, b)
    [] OTHER -> a = b

\* the value with every time leaf in its canonical text (nothing else changed), and whether it already is
RECURSIVE CanonTimes(_, _, _)
CanonTimes(env, T0, v) ==
  LET T == Resolve(env, T0) IN
  CASE T.k \in {"SEQUENCE", "SET"} ->
         LET cs == AllComps(T) IN [i \in DOMAIN cs |-> IF IsPres(v[i]) THEN Pres(CanonTimes(env, cs[i].t, v[i][1])) ELSE v[i]]
    [] ChoiceLike(T.k) -> MkAlt(AltOf(v), CanonTimes(env, CompByName(T, AltOf(v)).t, AltVal(v)))
    [] T.k \in {"SEQOF", "SETOF"} -> [i \in DOMAIN v |-> CanonTimes(env, T.t, v[i])]
    [] T.k = "STRING" -> CanonTime(T.st, v)
    [] OTHER -> v
TimeTextCanonical(env, T, v) == CanonTimes(env, T, v) = v

BitsWellFormed(b) == /\ Len(b.o) = (b.n + 7) \div 8
                     /\ (b.n % 8 # 0 => b.o[Len(b.o)] % (2^(8 - (b.n % 8))) = 0)

\* validity against every constraint at every depth (C08)
RECURSIVE Valid(_, _, _)
Valid(env, T0, v) ==
  LET T == Resolve(env, T0) IN
  CASE T.k = "INTEGER" -> Sat(T.c, v, BMin, BMax)
    [] T.k = "BITS" -> Sat(T.size, IOfInt(v.n), BI(0), BMax)
    [] T.k = "OCTETS" -> Sat(T.size, IOfInt(Len(v)), BI(0), BMax)
    [] T.k = "STRING" -> /\ Sat(T.size, IOfInt(Len(v)), BI(0), BMax)
                         /\ \A i \in DOMAIN v : InAlphabet(T, v[i])
    [] T.k \in {"SEQUENCE", "SET"} ->
         LET cs == AllComps(T) IN
         /\ \A i \in DOMAIN T.comps : T.comps[i].o = "M" => IsPres(v[i])
         /\ \A i \in DOMAIN cs : IsPres(v[i]) => Valid(env, cs[i].t, v[i][1])
    [] ChoiceLike(T.k) -> Valid(env, CompByName(T, AltOf(v)).t, AltVal(v))
    [] T.k \in {"SEQOF", "SETOF"} ->
         /\ Sat(T.size, IOfInt(Len(v)), BI(0), BMax)
         /\ \A i \in DOMAIN v : Valid(env, T.t, v[i])
    [] OTHER -> TRUE
\* ---- component relation constraint (X.682 10): the open type value is of the type the object set
\* pairs with the identifier value (C18)
IdVal(r) == IF r.oid # <<>> THEN r.oid ELSE IOfInt(r.id)
IoRows(T) == T.comps[2].t.comps
RECURSIVE IocConsistent(_, _, _)
IocConsistent(env, T0, v) ==
  LET T == Resolve(env, T0) IN
  CASE IsIoSeq(T) ->
         /\ IsPres(v[1])
         /\ IsPres(v[2]) =>
              /\ \E i \in DOMAIN IoRows(T) : /\ IoRows(T)[i].n = AltOf(v[2][1])
                                            /\ SameValue(env, T.comps[1].t, IdVal(IoRows(T)[i]), v[1][1])
              /\ IocConsistent(env, CompByName(T.comps[2].t, AltOf(v[2][1])).t, AltVal(v[2][1]))
    [] T.k \in {"SEQUENCE", "SET"} ->
         \A i \in DOMAIN AllComps(T) : IsPres(v[i]) => IocConsistent(env, AllComps(T)[i].t, v[i][1])
    [] T.k = "CHOICE" -> IocConsistent(env, CompByName(T, AltOf(v)).t, AltVal(v))
    [] T.k \in {"SEQOF", "SETOF"} -> \A i \in DOMAIN v : IocConsistent(env, T.t, v[i])
    [] OTHER -> TRUE
=============================================================================
