----------------------------- MODULE MC_OidApi -----------------------------
(***************************************************************************)
(* Generator and judge for OidApi: TLC enumerates every script of Depth    *)
(* operations over a palette of arc vectors / contents / slot counts, for  *)
(* both kinds of object; each script is performed on ONE real object and   *)
(* every recorded call is explained by the state the specification says    *)
(* the object is in.                                                       *)
(***************************************************************************)
EXTENDS OidApi, Json, IOUtils, TLC

CONSTANTS Depth, Dense

VARIABLES kind, obj, script, l
ovars == <<kind, obj, script, l>>

N(n) == NatOfInt(n)
M32 == ArcMax
GoodOid == {<<N(0), N(0)>>, <<N(1), N(39)>>, <<N(2), N(40), N(1)>>, <<N(2), NatSub(M32, <<80>>)>>,
            <<N(1), N(2), M32>>, <<N(0), N(39), N(127), N(128), N(16383), N(16384)>>}
           \cup (IF Dense THEN {<<N(2), N(999), N(3)>>, <<N(2), N(47), N(2097152), N(0), N(268435455), N(268435456)>>,
                                <<N(1), N(0), N(1), N(2), N(3), N(4), N(5), N(6), N(7), N(8), N(9), N(10), N(11)>>} ELSE {})
BadOid == {<<>>, <<N(1)>>, <<N(0), N(40)>>, <<N(1), N(40), N(1)>>, <<N(3), N(0)>>, <<N(2), NatSub(M32, <<79>>)>>, <<M32, N(0)>>}
GoodRoid == {<<>>, <<N(0)>>, <<N(40), N(127), N(128)>>, <<M32, N(0), M32>>} \cup (IF Dense THEN {<<N(16384), N(2097151)>>} ELSE {})
Loads(k) == {ContentsOf(k, v) : v \in (IF k = "oid" THEN {<<N(2), N(100), N(3)>>} ELSE {<<N(8571), N(3), N(2)>>})}
            \cup {<<43, 134>>,                           \* ends inside a subidentifier
                  <<43, 144, 128, 128, 128, 0>>,         \* the arc 2^32
                  <<43, 143, 255, 255, 255, 127, 1>>,    \* the arc 2^32 - 1
                  <<>>}
Slots == IF Dense THEN {0, 1, 2, 3, 5, 16} ELSE {0, 1, 2, 16}
Ops(k) == {[op |-> "set", arcs |-> v] : v \in (IF k = "oid" THEN GoodOid \cup BadOid ELSE GoodRoid)}
          \cup {[op |-> "load", o |-> o] : o \in Loads(k)}
          \cup {[op |-> "get", slots |-> s] : s \in Slots}

Init == kind \in {"oid", "roid"} /\ obj = Fresh /\ script = <<>> /\ l = 0
Step(op) == /\ Len(script) < Depth
            /\ script' = Append(script, op)
            /\ obj' = Post(kind, obj, op)
            /\ UNCHANGED <<kind, l>>
Next == \E op \in Ops(kind) : Step(op)
\* a script that ends in a Set or Load observes nothing new
Export == (Len(script) = Depth /\ script[Depth].op = "get") => PrintT(<<"SCN", ToJson([kind |-> kind, script |-> script])>>)

\* model-level sanity: what a successful Set stores denotes the vector that was set; a failed Set changes nothing
SetGetInverse == obj.src = "set" => LET r == ArcsOf(kind, obj.o) IN r.ok /\ r.arcs = obj.arcs
CanonicalContents == obj.src = "set" => \A i \in DOMAIN obj.o : obj.o[i] = 128 => (i > 1 /\ obj.o[i - 1] >= 128)

\* ---- judge ------------------------------------------------------------------------
Scn == ndJsonDeserialize(IOEnv.VERIF_SCENARIOS)
Log == ndJsonDeserialize(IOEnv.VERIF_TRACE)
SetSeq(S) == LET RECURSIVE F(_) F(T) == IF T = {} THEN <<>> ELSE LET x == CHOOSE y \in T : TRUE IN <<x>> \o F(T \ {x}) IN F(S)
Ev == Log[l]
TInit == l = 1 /\ kind = "oid" /\ obj = Fresh /\ script = <<>>
\* one recorded call = one Step of the specification from the state the object is in
TStep == /\ l <= Len(Log)
         /\ LET s == Scn[Ev.id]
                pre == IF Ev.i = 1 THEN Fresh ELSE obj
                op == s.script[Ev.i]
                f == IF Ev.a = "Call" THEN Faults(s.kind, pre, op, Ev) ELSE {IF Ev.a = "Timeout" THEN "timeout" ELSE "crash"}
            IN /\ (f # {} => PrintT(<<"MISMATCH", ToJson([id |-> Ev.id, i |-> Ev.i, l |-> l, reasons |-> SetSeq(f)])>>))
               /\ kind' = s.kind
               /\ obj' = Post(s.kind, pre, op)
               /\ script' = IF Ev.i = 1 THEN <<op>> ELSE Append(script, op)
         /\ l' = l + 1
TNext == TStep
TraceAccepted == TLCGet("stats").diameter - 1 = Len(Log)
=============================================================================
