CONSTANTS
  Thread <- T
  Script <- S
INIT Init
NEXT Next
INVARIANTS Sequential GlobalsUntouched
CHECK_DEADLOCK FALSE
