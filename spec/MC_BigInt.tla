----------------------------- MODULE MC_BigInt -----------------------------
(* Model-level check of the BigInt foundation: agreement with TLC's native *)
(* integers on an exhaustive small range, algebraic laws on boundary sets. *)
EXTENDS BigInt, TLC, FiniteSets

Small == -700..700
B(n) == IOfInt(n)

Edge == { IOfInt(0), IOfInt(1), IOfInt(-1), IOfInt(127), IOfInt(128), IOfInt(-128), IOfInt(-129),
          IOfInt(255), IOfInt(256), IOfInt(32767), IOfInt(32768), IOfInt(-32768), IOfInt(-32769),
          IOfInt(65535), IOfInt(65536), IOfInt(2147483647), IPow2(31), INeg(IPow2(31)),
          IDec(INeg(IPow2(31))), IDec(IPow2(32)), IPow2(32), IDec(IPow2(63)), IPow2(63),
          INeg(IPow2(63)), IDec(INeg(IPow2(63))), IDec(IPow2(64)), IPow2(64) }

ASSUME \A a \in Small : IToInt(B(a)) = a
ASSUME \A a \in -80..80, b \in -80..80 :
          /\ IToInt(IAdd(B(a), B(b))) = a + b
          /\ IToInt(ISub(B(a), B(b))) = a - b
          /\ (ICmp(B(a), B(b)) < 0) = (a < b)
          /\ (ICmp(B(a), B(b)) = 0) = (a = b)
ASSUME \A a \in -70000..70000 : OfTwosC(TwosC(B(a))) = B(a)
ASSUME \A a \in -40000..40000 :
          LET o == TwosC(B(a)) IN
            /\ Len(o) = (IF a >= -128 /\ a <= 127 THEN 1 ELSE IF a >= -32768 /\ a <= 32767 THEN 2 ELSE 3)
ASSUME \A x \in Edge, y \in Edge :
          /\ IAdd(ISub(x, y), y) = x
          /\ OfTwosC(TwosC(x)) = x
          /\ ICmp(x, y) = -ICmp(y, x)
          /\ (ICmp(x, y) = 0) = (x = y)
ASSUME TwosC(IPow2(63)) = <<0,128,0,0,0,0,0,0,0>>
ASSUME TwosC(INeg(IPow2(63))) = <<128,0,0,0,0,0,0,0>>
ASSUME TwosC(IDec(INeg(IPow2(63)))) = <<255,127,255,255,255,255,255,255,255>>
ASSUME TwosC(IDec(IPow2(64))) = <<0,255,255,255,255,255,255,255,255>>
ASSUME TwosC(B(-129)) = <<255,127>>
ASSUME \A a \in 0..3000 : NatToInt(NatMulSmall(NatOfInt(a), 37)) = a * 37
ASSUME \A a \in 0..3000 : LET dm == NatDivMod(NatOfInt(a), 7) IN NatToInt(dm.q) = a \div 7 /\ dm.r = a % 7
ASSUME \A a \in 0..5000 : NatBitLen(NatOfInt(a)) = (CHOOSE k \in 0..14 : (a < 2^k) /\ (k = 0 \/ a >= 2^(k-1)))
ASSUME NatBits(NatOfInt(5), 3) = <<1,0,1>> /\ NatBits(NatOfInt(5), 9) = <<0,0,0,0,0,0,1,0,1>> /\ NatBits(<<>>, 0) = <<>>
ASSUME IDecimal(IDec(IPow2(64))) = <<49,56,52,52,54,55,52,52,48,55,51,55,48,57,53,53,49,54,49,53>>
ASSUME IDecimal(B(-120)) = <<45,49,50,48>> /\ IDecimal(B(0)) = <<48>>
ASSUME FitsSigned(IDec(IPow2(63)), 8) /\ ~FitsSigned(IPow2(63), 8) /\ FitsSigned(INeg(IPow2(63)), 8) /\ ~FitsSigned(IDec(INeg(IPow2(63))), 8)
ASSUME FitsUnsigned(IDec(IPow2(64)), 8) /\ ~FitsUnsigned(IPow2(64), 8) /\ ~FitsUnsigned(B(-1), 8)
=============================================================================
