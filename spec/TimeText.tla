------------------------------ MODULE TimeText ------------------------------
(***************************************************************************)
(* GeneralizedTime and UTCTime as text (X.680 46, 47) and their canonical  *)
(* forms (X.690 11.7, 11.8).  A time value is a sequence of character      *)
(* codes.  Two texts denote the same abstract value iff they denote the    *)
(* same instant with the same fraction (trailing zeros of the fraction are *)
(* insignificant); the canonical text is                                   *)
(*     YYYYMMDDHHMMSS[.f...]Z     (GeneralizedTime, 11.7)                  *)
(*     YYMMDDHHMMSSZ              (UTCTime, 11.8)                          *)
(* Forms: hour / minute / second accuracy, fraction of a second after '.'  *)
(* or ',', and one of: nothing (local time), 'Z', +hh[mm] / -hh[mm].      *)
(* Local time is interpreted in the zone of the process; the harness runs  *)
(* the implementation with TZ=UTC, so here local time = UTC (assumption    *)
(* stated in the evidence).  Fractions of an hour or of a minute (allowed  *)
(* by ISO 8601) are not modelled.                                          *)
(* Instants are (days since 1970-01-01, second of day): TLC integers are   *)
(* 32 bit and seconds since the epoch overflow in 2038.                    *)
(***************************************************************************)
EXTENDS Integers, Sequences

TDig(c) == c >= 48 /\ c <= 57
TN2(s, i) == (s[i] - 48) * 10 + (s[i + 1] - 48)
TN4(s, i) == TN2(s, i) * 100 + TN2(s, i + 2)
TDigitsAt(s, i, n) == i + n - 1 <= Len(s) /\ \A k \in i..(i + n - 1) : TDig(s[k])

TFloorDiv(a, b) == IF a >= 0 THEN a \div b ELSE -((-a + b - 1) \div b)
\* days since 1970-01-01 of a proleptic Gregorian date
DaysFromCivil(y, m, d) ==
  LET yy == IF m <= 2 THEN y - 1 ELSE y
      era == TFloorDiv(yy, 400)
      yoe == yy - era * 400
      mp == (m + 9) % 12
      doy == (153 * mp + 2) \div 5 + d - 1
      doe == yoe * 365 + yoe \div 4 - yoe \div 100 + doy
  IN era * 146097 + doe - 719468
CivilOfDays(days) ==
  LET z == days + 719468
      era == TFloorDiv(z, 146097)
      doe == z - era * 146097
      yoe == (doe - doe \div 1460 + doe \div 36524 - doe \div 146096) \div 365
      doy == doe - (365 * yoe + yoe \div 4 - yoe \div 100)
      mp == (5 * doy + 2) \div 153
      d == doy - (153 * mp + 2) \div 5 + 1
      m == IF mp < 10 THEN mp + 3 ELSE mp - 9
      y == yoe + era * 400 + (IF m <= 2 THEN 1 ELSE 0)
  IN [y |-> y, m |-> m, d |-> d]
TDigits(n, w) == [i \in 1..w |-> 48 + ((n \div (10 ^ (w - i))) % 10)]

\* ---- the part after YYYYMMDDHH / YYMMDDHH: [mm[ss[(.|,)f+]]][Z | +hh[mm] | -hh[mm]] ----
\* p: index of the first character after the hour
RECURSIVE TFracEnd(_, _)
TFracEnd(s, i) == IF i <= Len(s) /\ TDig(s[i]) THEN TFracEnd(s, i + 1) ELSE i - 1
RECURSIVE TStripZeros(_)
TStripZeros(f) == IF f # <<>> /\ f[Len(f)] = 48 THEN TStripZeros(SubSeq(f, 1, Len(f) - 1)) ELSE f

TTail(s, p) ==
  LET hasMin == TDigitsAt(s, p, 2)
      p1 == IF hasMin THEN p + 2 ELSE p
      hasSec == hasMin /\ TDigitsAt(s, p1, 2)
      p2 == IF hasSec THEN p1 + 2 ELSE p1
      hasFrac == hasSec /\ p2 + 1 <= Len(s) /\ s[p2] \in {44, 46} /\ TDig(s[p2 + 1])
      fe == IF hasFrac THEN TFracEnd(s, p2 + 1) ELSE p2 - 1
      p3 == fe + 1
      rest == SubSeq(s, p3, Len(s))
      okRest == \/ rest = <<>> \/ rest = <<90>>
                \/ (Len(rest) \in {3, 5} /\ rest[1] \in {43, 45} /\ TDigitsAt(rest, 2, Len(rest) - 1))
      offMin == IF Len(rest) >= 3 THEN (TN2(rest, 2) * 60 + (IF Len(rest) = 5 THEN TN2(rest, 4) ELSE 0)) * (IF rest[1] = 45 THEN -1 ELSE 1)
                ELSE 0
  IN [ok |-> okRest,
      min |-> IF hasMin THEN TN2(s, p) ELSE 0,
      sec |-> IF hasSec THEN TN2(s, p1) ELSE 0,
      frac |-> IF hasFrac THEN TStripZeros(SubSeq(s, p2 + 1, fe)) ELSE <<>>,
      off |-> offMin]

\* the instant of date (y, m, d), hour h, tail t: [days, sod, frac]; the offset is subtracted
TInstant(y, m, d, h, t) ==
  LET total == h * 3600 + t.min * 60 + t.sec - t.off * 60
      dd == TFloorDiv(total, 86400)
  IN [days |-> DaysFromCivil(y, m, d) + dd, sod |-> total - dd * 86400, frac |-> t.frac]

GTWellFormed(s) == /\ TDigitsAt(s, 1, 10)
                   /\ TN2(s, 5) \in 1..12 /\ TN2(s, 7) \in 1..31 /\ TN2(s, 9) \in 0..23
                   /\ TTail(s, 11).ok /\ TTail(s, 11).min \in 0..59 /\ TTail(s, 11).sec \in 0..59
GTInstant(s) == TInstant(TN4(s, 1), TN2(s, 5), TN2(s, 7), TN2(s, 9), TTail(s, 11))
GTTextOf(i) ==
  LET c == CivilOfDays(i.days)
  IN TDigits(c.y, 4) \o TDigits(c.m, 2) \o TDigits(c.d, 2) \o TDigits(i.sod \div 3600, 2) \o TDigits((i.sod \div 60) % 60, 2)
     \o TDigits(i.sod % 60, 2) \o (IF i.frac = <<>> THEN <<>> ELSE <<46>> \o i.frac) \o <<90>>
\* X.690 11.7; a text that is not a time stays what it is
CanonGT(s) == IF GTWellFormed(s) THEN GTTextOf(GTInstant(s)) ELSE s

\* UTCTime: YYMMDDhhmm[ss](Z | +hhmm | -hhmm) (and, leniently, no designator); the century is a
\* convention that only matters when the offset moves the instant across 28/29 February or a year
\* boundary of a century year: 50..99 -> 19yy, 00..49 -> 20yy (values near those edges are not generated)
UTWellFormed(s) == /\ TDigitsAt(s, 1, 8)
                   /\ TN2(s, 3) \in 1..12 /\ TN2(s, 5) \in 1..31 /\ TN2(s, 7) \in 0..23
                   /\ TTail(s, 9).ok /\ TTail(s, 9).min \in 0..59 /\ TTail(s, 9).sec \in 0..59 /\ TTail(s, 9).frac = <<>>
UTYear(s) == LET yy == TN2(s, 1) IN IF yy >= 50 THEN 1900 + yy ELSE 2000 + yy
UTInstant(s) == TInstant(UTYear(s), TN2(s, 3), TN2(s, 5), TN2(s, 7), TTail(s, 9))
UTTextOf(i) ==
  LET c == CivilOfDays(i.days)
  IN TDigits(c.y % 100, 2) \o TDigits(c.m, 2) \o TDigits(c.d, 2) \o TDigits(i.sod \div 3600, 2) \o TDigits((i.sod \div 60) % 60, 2)
     \o TDigits(i.sod % 60, 2) \o <<90>>
CanonUT(s) == IF UTWellFormed(s) THEN UTTextOf(UTInstant(s)) ELSE s

CanonTime(st, s) == IF st = "GeneralizedTime" THEN CanonGT(s) ELSE IF st = "UTCTime" THEN CanonUT(s) ELSE s
=============================================================================
