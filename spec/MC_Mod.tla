------------------------------- MODULE MC_Mod -------------------------------
(* Prints the universe modules as JSON (the glue derives the character codes *)
(* of all identifiers from them: TLC cannot take a string apart).            *)
EXTENDS Universe, Json
ASSUME \A i \in DOMAIN Modules : PrintT(<<"MOD", ToJson(Modules[i])>>)
=============================================================================
