----------------------------- MODULE Trace_Codec -----------------------------
(***************************************************************************)
(* Trace validation: events recorded from the real library (driver) must   *)
(* be explained, one by one, by the actions of Codec.  One file holds many *)
(* independent sessions.  Judge mode: an event that no action explains is  *)
(* reported (MISMATCH line) and kills its session only; the rest of the    *)
(* file is still examined.  Acceptance: the whole log was consumed         *)
(* (POSTCONDITION) and no MISMATCH was printed.                            *)
(***************************************************************************)
EXTENDS Codec, Json, IOUtils

TheMod == JsonDeserialize(IOEnv.VERIF_MODULE)
Scn == ndJsonDeserialize(IOEnv.VERIF_SCENARIOS)
Log == ndJsonDeserialize(IOEnv.VERIF_TRACE)

VARIABLES l,      \* position in Log
          live    \* the current session is still explained by the spec
tvars == <<vars, l, live>>

Ev == Log[l]

TInit == /\ l = 1 /\ live = FALSE
         /\ sc = [id |-> 0, ty |-> "", val |-> 0, plan |-> <<>>] /\ pc = 1
         /\ obj = [i \in Slots |-> NoObj] /\ wire = [x \in Syntaxes |-> NoWire]

Report(reason) == PrintT(<<"MISMATCH", ToJson([id |-> sc.id, i |-> pc, l |-> l, reason |-> reason])>>)

TSession == /\ l <= Len(Log) /\ Ev.a = "Session"
            /\ l' = l + 1
            /\ StartSession(Scn[Ev.id])
            /\ IF Ev.found /\ Scn[Ev.id].id = Ev.id THEN live' = TRUE
               ELSE /\ live' = FALSE
                    /\ PrintT(<<"MISMATCH", ToJson([id |-> Ev.id, i |-> 0, l |-> l, reason |-> "type-not-found"])>>)

\* an event of a live session that the spec explains: take the spec's step
TStep == /\ l <= Len(Log) /\ live /\ Ev.a # "Session"
         /\ Ev.id = sc.id /\ pc <= Len(sc.plan) /\ Ev.i = pc /\ Ev.a = sc.plan[pc].a
         /\ Verdict(sc.plan[pc], Ev) = "ok"
         /\ Step
         /\ l' = l + 1 /\ UNCHANGED live

\* an event of a live session that no spec action explains
TUnexplained ==
         /\ l <= Len(Log) /\ live /\ Ev.a # "Session"
         /\ LET r == IF Ev.id # sc.id \/ pc > Len(sc.plan) \/ Ev.i # pc THEN "out-of-order"
                     ELSE IF Ev.a = "Crash" THEN "crash"
                     ELSE IF Ev.a # sc.plan[pc].a THEN "wrong-action"
                     ELSE Verdict(sc.plan[pc], Ev)
            IN /\ r # "ok"
               /\ Report(r)
         /\ live' = FALSE
         /\ l' = l + 1 /\ UNCHANGED vars

\* remaining events of a session that already failed
TSkip == /\ l <= Len(Log) /\ ~live /\ Ev.a # "Session"
         /\ l' = l + 1 /\ UNCHANGED <<vars, live>>

TNext == TSession \/ TStep \/ TUnexplained \/ TSkip
TraceSpec == TInit /\ [][TNext]_tvars

TraceAccepted == TLCGet("stats").diameter - 1 = Len(Log)
=============================================================================
