----------------------------- MODULE Trace_Codec -----------------------------
(***************************************************************************)
(* Trace validation: events recorded from the real library (driver) must   *)
(* be explained, one by one, by the actions of Codec.  One file holds many *)
(* independent sessions.  Judge mode: an event that no action explains is  *)
(* reported (MISMATCH line) and kills its session only; the rest of the    *)
(* file is still examined.  Acceptance: the whole log was consumed         *)
(* (POSTCONDITION) and no MISMATCH was printed.                            *)
(***************************************************************************)
EXTENDS Codec, Json, IOUtils

TheNames == JsonDeserialize(IOEnv.VERIF_NAMES)
TheMod == JsonDeserialize(IOEnv.VERIF_MODULE)
Scn == ndJsonDeserialize(IOEnv.VERIF_SCENARIOS)
Log == ndJsonDeserialize(IOEnv.VERIF_TRACE)

VARIABLES l,      \* position in Log
          live    \* the current session is still explained by the spec
tvars == <<vars, l, live>>

Ev == Log[l]

TInit == /\ l = 1 /\ live = FALSE
         /\ sc = [id |-> 0, ty |-> "", val |-> 0, plan |-> <<>>] /\ pc = 1
         /\ obj = [i \in Slots |-> NoObj] /\ wire = [x \in Syntaxes |-> NoWire] /\ dec = NoDec /\ fault = 0

TSession == /\ l <= Len(Log) /\ Ev.a = "Session"
            /\ l' = l + 1
            /\ StartSession(Scn[Ev.id])
            /\ IF Ev.found /\ Scn[Ev.id].id = Ev.id THEN live' = TRUE
               ELSE /\ live' = FALSE
                    /\ PrintT(<<"MISMATCH", ToJson([id |-> Ev.id, i |-> 0, l |-> l, reasons |-> <<"type-not-found">>])>>)

\* Recorded findings (known_findings.json, matched by the glue): the event carries
\* waive = the clause names whose violation is a recorded defect that leaves the abstract state
\* as specified (judging continues), or kf = "stop": the implementation's state now differs from
\* the spec's in the recorded way and the rest of this session is not judged.
Waived == IF "waive" \in DOMAIN Ev THEN SeqRange(Ev.waive) ELSE {}
Stopped == "kf" \in DOMAIN Ev
NoInput == Ev.a = "Decode" /\ Ev.rc = "NOINPUT"
Fld(f, dflt) == IF f \in DOMAIN Ev THEN Ev[f] ELSE dflt
Obs == [bytes |-> Fld("bytes", OpaqueWire), consumed |-> Fld("consumed", 0), allocfailed |-> Fld("allocfailed", 0),
        rc |-> Fld("rc", "FAIL"), wf |-> Fld("wf", FALSE) /\ "val" \in DOMAIN Ev, val |-> Fld("val", 0), bad |-> Fld("bad", FALSE)]
InOrder == Ev.id = sc.id /\ pc <= Len(sc.plan) /\ Ev.i = pc /\ Ev.a = sc.plan[pc].a
Pending == IF ~InOrder THEN (IF Ev.a = "Crash" THEN {"crash"} ELSE IF Ev.a = "Timeout" THEN {"timeout"} ELSE {"out-of-order"})
           ELSE Faults(sc.plan[pc], Ev) \ Waived

\* the driver had nothing to decode because the preceding Encode (already judged) failed:
\* the session ends here without a further report
TNoInput == /\ l <= Len(Log) /\ live /\ NoInput
            /\ live' = FALSE /\ l' = l + 1 /\ UNCHANGED vars

\* an event of a live session that the spec explains: take the spec's step
TStep == /\ l <= Len(Log) /\ live /\ Ev.a # "Session" /\ ~NoInput /\ ~Stopped
         /\ Pending = {}
         /\ Step(Obs)
         /\ l' = l + 1 /\ UNCHANGED live

TStopKnown == /\ l <= Len(Log) /\ live /\ Ev.a # "Session" /\ ~NoInput /\ Stopped
              /\ live' = FALSE /\ l' = l + 1 /\ UNCHANGED vars

\* an event of a live session that no spec action explains
TUnexplained ==
         /\ l <= Len(Log) /\ live /\ Ev.a # "Session" /\ ~NoInput /\ ~Stopped
         /\ Pending # {}
         /\ PrintT(<<"MISMATCH", ToJson([id |-> sc.id, i |-> pc, l |-> l, reasons |-> SetSeq(Pending)])>>)
         /\ live' = FALSE
         /\ l' = l + 1 /\ UNCHANGED vars

\* remaining events of a session that already failed
TSkip == /\ l <= Len(Log) /\ ~live /\ Ev.a # "Session"
         /\ l' = l + 1 /\ UNCHANGED <<vars, live>>

TNext == TSession \/ TStep \/ TStopKnown \/ TNoInput \/ TUnexplained \/ TSkip
TraceSpec == TInit /\ [][TNext]_tvars

TraceAccepted == TLCGet("stats").diameter - 1 = Len(Log)
=============================================================================
