------------------------------ MODULE Variants ------------------------------
(***************************************************************************)
(* The relation "b is a valid encoding of value v of type T" beyond the    *)
(* canonical encodings (C03): alternative forms that X.690 (BER), X.691,   *)
(* X.696 and X.693 allow a sender to produce.  A variant is selected by a  *)
(* style record; BerVar / UperVar / OerVar / XerVar map (T, v, style) to   *)
(* octets.  Every style with the neutral settings yields the canonical     *)
(* encoding (model-level check in MC_Variants).                            *)
(*                                                                         *)
(* BER style fields:                                                       *)
(*   len    "min" | "pad1" | "pad4" | "pad9" : definite lengths minimal,   *)
(*          or long form with 1 / 4 / 9 length octets more than needed     *)
(*          (8.1.3.5 does not bound the padding below 126 octets)          *)
(*   indef  "none" | "all" | "odd" | "even" : which constructed encodings  *)
(*          (by nesting depth) use the indefinite form (8.1.3.6)           *)
(*   str    "prim" | "two" | "nested" : string types primitive, or         *)
(*          constructed from two segments, or nested constructed (8.21.6)  *)
(*   setrev SET components in reverse order (8.11, BER: any order)         *)
(*   defp   components equal to their DEFAULT are encoded (8.10.?, BER)    *)
(*   true   contents octet used for BOOLEAN TRUE (8.2.2: any non-zero)     *)
(*   ext    "none" | "prim" | "cons" : an unknown extension addition is    *)
(*          present at the extension insertion point of extensible types   *)
(*   real   "canon" | "even" | "scaled" | "base8" | "base16" | "explen" |  *)
(*          "decimal": other binary encodings of the same number (8.5.7:   *)
(*          mantissa not odd, scaling factor F, base 8 / 16, exponent      *)
(*          length given in a second octet) and the ISO 6093 NR3 text      *)
(***************************************************************************)
EXTENDS XER

Canon == [len |-> "min", indef |-> "none", str |-> "prim", setrev |-> FALSE, defp |-> FALSE,
          true |-> 255, ext |-> "none", real |-> "canon"]

\* ---- BER --------------------------------------------------------------------
VarLen(st, n) ==
  LET o == NatOfInt(n)
      minimal == DerLen(n)
  IN CASE st.len = "min" -> minimal
       [] st.len = "pad1" -> <<128 + Len(o) + 1>> \o <<0>> \o o
       [] st.len = "pad4" -> <<128 + Len(o) + 4>> \o <<0, 0, 0, 0>> \o o
       [] st.len = "pad9" -> <<128 + Len(o) + 9>> \o <<0, 0, 0, 0, 0, 0, 0, 0, 0>> \o o     \* more length octets than a size_t has

UseIndef(st, depth) == CASE st.indef = "none" -> FALSE [] st.indef = "all" -> TRUE
                         [] st.indef = "odd" -> depth % 2 = 1 [] st.indef = "even" -> depth % 2 = 0

Wrap(st, tag, constructed, body, depth) ==
  Ident(tag, constructed) \o
  (IF constructed /\ UseIndef(st, depth) THEN <<128>> \o body \o <<0, 0>>
   ELSE VarLen(st, Len(body)) \o body)

\* ---- REAL (X.690 8.5.7): value = S * N * 2^F * B^E ------------------------------
RealParts(d) ==
  LET bits == AllBits(d)
      e == BitsToInt(SubSeq(bits, 2, 12))
      frac == SubSeq(bits, 13, 64)
      fracZero == \A i \in 1..52 : frac[i] = 0
      mant0 == IF e = 0 THEN frac ELSE <<1>> \o frac
      exp0 == IF e = 0 THEN -1074 ELSE e - 1075
      mant1 == StripTrailingZeroBits(mant0)
  IN [special |-> (e = 0 /\ fracZero) \/ e = 2047, sign |-> bits[1],
      mant |-> StripLeadingZeroBits(mant1), exp |-> exp0 + (Len(mant0) - Len(mant1))]
RealBin(sign, base, F, e, mbits) ==
  LET eo == TwosC(IOfInt(e)) IN <<128 + 64 * sign + 16 * base + 4 * F + (Len(eo) - 1)>> \o eo \o PackLeft(mbits)
RealVarContents(d, form) ==
  LET p == RealParts(d) IN
  IF p.special THEN RealContents(d)
  ELSE CASE form = "even" -> RealBin(p.sign, 0, 0, p.exp - 3, p.mant \o <<0, 0, 0>>)
         [] form = "scaled" -> RealBin(p.sign, 0, 2, p.exp - 2, p.mant)
         [] form = "base8" -> LET q == TFloorDiv(p.exp, 3) IN RealBin(p.sign, 1, p.exp - 3 * q, q, p.mant)
         [] form = "base16" -> LET q == TFloorDiv(p.exp, 4) IN RealBin(p.sign, 2, p.exp - 4 * q, q, p.mant)
         [] form = "explen" -> LET eo == TwosC(IOfInt(p.exp))
                               IN IF Len(eo) < 2 THEN RealContents(d)
                                  ELSE <<128 + 64 * p.sign + 3, Len(eo)>> \o eo \o PackLeft(p.mant)
         [] form = "decimal" -> IF d \in DOMAIN RealTexts THEN <<3>> \o RealTexts[d] ELSE RealContents(d)
         [] OTHER -> RealContents(d)

IsStringKind(T) == T.k \in {"OCTETS", "BITS", "STRING"}

\* constructed form of a string: segments are primitive OCTET STRING (BIT STRING for a bit
\* string) encodings; every segment of a bit string but the last has no unused bits
Segment(st, T, octets, unused, depth) ==
  IF T.k = "BITS" THEN Wrap(st, Tag("U", 3), FALSE, <<unused>> \o octets, depth)
  ELSE Wrap(st, Tag("U", 4), FALSE, octets, depth)
StringBody(st, T, v, depth) ==
  LET o == IF T.k = "BITS" THEN v.o ELSE IF T.k = "OCTETS" THEN v ELSE StringOctets(T.st, v)
      unused == IF T.k = "BITS" THEN (8 - (v.n % 8)) % 8 ELSE 0
      h == Len(o) \div 2
      two == Segment(st, T, SubSeq(o, 1, h), 0, depth + 1) \o Segment(st, T, SubSeq(o, h + 1, Len(o)), unused, depth + 1)
  IN IF st.str = "two" THEN two
     ELSE \* nested: a constructed segment holding the two primitive segments, then an empty one
          Ident(Tag("U", IF T.k = "BITS" THEN 3 ELSE 4), TRUE)
          \o (IF UseIndef(st, depth + 1) THEN <<128>> ELSE VarLen(st, Len(
                 Segment(st, T, SubSeq(o, 1, h), 0, depth + 2) \o Segment(st, T, SubSeq(o, h + 1, Len(o)), unused, depth + 2))))
          \o Segment(st, T, SubSeq(o, 1, h), 0, depth + 2) \o Segment(st, T, SubSeq(o, h + 1, Len(o)), unused, depth + 2)
          \o (IF UseIndef(st, depth + 1) THEN <<0, 0>> ELSE <<>>)

UnknownExt(st, depth) ==
  CASE st.ext = "none" -> <<>>
    [] st.ext = "prim" -> Wrap(st, Tag("C", 99), FALSE, <<1, 2, 3>>, depth)
    [] st.ext = "cons" -> Wrap(st, Tag("P", 100), TRUE,
                               Wrap(st, Tag("U", 2), FALSE, <<5>>, depth + 1)
                               \o Wrap(st, Tag("C", 0), TRUE, Wrap(st, Tag("U", 5), FALSE, <<>>, depth + 2), depth + 1), depth)

EncodedVar(env, st, c, e) == IF st.defp /\ c.o = "D" THEN TRUE ELSE Encoded(env, c, e)
ValOr(c, e) == IF IsPres(e) THEN e[1] ELSE c.d

RECURSIVE BerV(_, _, _, _, _, _)
CompEncsV(env, T, v, st, depth) ==
  LET cs == AllComps(T)
  IN [i \in DOMAIN cs |-> IF EncodedVar(env, st, cs[i], v[i]) THEN BerV(env, cs[i].t, ValOr(cs[i], v[i]), NoTag, st, depth) ELSE <<>>]
BerV(env, T, v, impl, st, depth) ==
  CASE T.k = "TAGGED" ->
         LET tg == IF impl = NoTag THEN Tag(T.cl, T.num) ELSE impl
         IN IF T.mode = "E" THEN Wrap(st, tg, TRUE, BerV(env, T.t, v, NoTag, st, depth + 1), depth)
            ELSE BerV(env, T.t, v, tg, st, depth)
    [] IsRef(T) -> BerV(env, Follow(env, T), v, impl, st, depth)
    [] ChoiceLike(T.k) -> BerV(env, CompByName(T, AltOf(v)).t, AltVal(v), NoTag, st, depth)
    [] T.k = "SEQUENCE" ->
         Wrap(st, TagOr(impl, T), TRUE,
              ConcatAll(CompEncsV(env, T, v, st, depth + 1)) \o (IF T.ext THEN UnknownExt(st, depth + 1) ELSE <<>>), depth)
    [] T.k = "SET" ->
         LET encs == CompEncsV(env, T, v, st, depth + 1)
             n == Len(encs)
             ordered == IF st.setrev THEN [i \in 1..n |-> encs[n + 1 - i]] ELSE encs
         IN Wrap(st, TagOr(impl, T), TRUE,
                 ConcatAll(ordered) \o (IF T.ext THEN UnknownExt(st, depth + 1) ELSE <<>>), depth)
    [] T.k = "SEQOF" -> Wrap(st, TagOr(impl, T), TRUE,
                             ConcatAll([i \in DOMAIN v |-> BerV(env, T.t, v[i], NoTag, st, depth + 1)]), depth)
    [] T.k = "SETOF" -> Wrap(st, TagOr(impl, T), TRUE,
                             ConcatAll([i \in DOMAIN v |-> BerV(env, T.t, v[Len(v) + 1 - i], NoTag, st, depth + 1)]), depth)
    [] IsStringKind(T) /\ st.str # "prim" -> Wrap(st, TagOr(impl, T), TRUE, StringBody(st, T, v, depth), depth)
    [] T.k = "BOOLEAN" -> Wrap(st, TagOr(impl, T), FALSE, IF v THEN <<st.true>> ELSE <<0>>, depth)
    [] T.k = "REAL" -> Wrap(st, TagOr(impl, T), FALSE, RealVarContents(v, st.real), depth)
    [] OTHER -> Wrap(st, TagOr(impl, T), FALSE, Contents(T, v), depth)

BerVar(env, T, v, st) == BerV(env, T, v, NoTag, st, 0)

\* one-at-a-time styles plus a few combinations
BerStyles == <<
  [Canon EXCEPT !.len = "pad1"],
  [Canon EXCEPT !.len = "pad4"],
  [Canon EXCEPT !.indef = "all"],
  [Canon EXCEPT !.indef = "odd"],
  [Canon EXCEPT !.indef = "even"],
  [Canon EXCEPT !.str = "two"],
  [Canon EXCEPT !.str = "nested"],
  [Canon EXCEPT !.str = "two", !.indef = "all"],
  [Canon EXCEPT !.str = "nested", !.indef = "all", !.len = "pad1"],
  [Canon EXCEPT !.setrev = TRUE],
  [Canon EXCEPT !.defp = TRUE],
  [Canon EXCEPT !.true = 1],
  [Canon EXCEPT !.ext = "prim"],
  [Canon EXCEPT !.ext = "cons"],
  [Canon EXCEPT !.ext = "cons", !.indef = "all"],
  [Canon EXCEPT !.indef = "all", !.len = "pad4", !.setrev = TRUE, !.defp = TRUE, !.true = 128],
  [Canon EXCEPT !.len = "pad9"],
  [Canon EXCEPT !.real = "even"],
  [Canon EXCEPT !.real = "scaled"],
  [Canon EXCEPT !.real = "base8"],
  [Canon EXCEPT !.real = "base16"],
  [Canon EXCEPT !.real = "explen"],
  [Canon EXCEPT !.real = "decimal"] >>

\* does the style change anything for this type?  (avoids exporting duplicates of the canonical form)
StyleName(i) == "ber" \o ToString(i)

\* ---- UPER / OER / XER variants ------------------------------------------------
\* (a) a component equal to its DEFAULT is sent explicitly (BASIC-PER / BASIC-OER / BASIC-XER);
\* (b) an extensible SEQUENCE carries one more extension addition than the receiver knows.
\* Both are expressed by transforming the TYPE the reference encoder is applied to.
RECURSIVE NoDefaults(_, _)
NoDefaults(env, T) ==
  CASE T.k \in {"SEQUENCE", "SET"} ->
         [T EXCEPT !.comps = [i \in DOMAIN T.comps |->
                                 IF T.comps[i].o = "D" THEN [n |-> T.comps[i].n, t |-> T.comps[i].t, o |-> "O"] ELSE T.comps[i]]]
    [] IsRef(T) -> NoDefaults(env, Follow(env, T))
    [] T.k = "TAGGED" -> [T EXCEPT !.t = NoDefaults(env, T.t)]
    [] OTHER -> T
\* the value with every top-level DEFAULT component made explicit
WithDefaults(env, T0, v) ==
  LET T == Resolve(env, T0) IN
  IF T.k \in {"SEQUENCE", "SET"}
  THEN [i \in DOMAIN v |-> IF i <= Len(T.comps) /\ T.comps[i].o = "D" /\ ~IsPres(v[i]) THEN Pres(T.comps[i].d) ELSE v[i]]
  ELSE v
HasTopDefault(env, T0) == LET T == Resolve(env, T0) IN
  T.k \in {"SEQUENCE", "SET"} /\ \E i \in DOMAIN T.comps : T.comps[i].o = "D"

\* the sender's newer version of an extensible SEQUENCE: one more addition, an OCTET STRING
RECURSIVE Newer(_, _)
Newer(env, T) ==
  CASE T.k = "SEQUENCE" -> [T EXCEPT !.adds = @ \o <<Comp("zz-unknown", TTag("P", 777, "I", TOctets(CNone)), "O")>>]
    [] IsRef(T) -> Newer(env, Follow(env, T))
    [] T.k = "TAGGED" -> [T EXCEPT !.t = Newer(env, T.t)]
    [] OTHER -> T
\* the sender's version has n more additions than the receiver knows; only the last one is present
\* (a presence bitmap of more than 64 bits changes the form of its length, X.691 11.9.3.4 / X.696 16.3)
RECURSIVE NewerN(_, _, _)
NewerN(env, T, n) ==
  CASE T.k = "SEQUENCE" -> [T EXCEPT !.adds = @ \o [i \in 1..n |-> Comp("zz-unknown", TTag("P", 776 + i, "I", TOctets(CNone)), "O")]]
    [] IsRef(T) -> NewerN(env, Follow(env, T), n)
    [] T.k = "TAGGED" -> [T EXCEPT !.t = NewerN(env, T.t, n)]
    [] OTHER -> T
NewerValN(v, extra, n) == v \o [i \in 1..n |-> IF i = n THEN Pres(extra) ELSE <<>>]
IsExtSeq(env, T0) == LET T == Resolve(env, T0) IN T.k = "SEQUENCE" /\ T.ext
NewerVal(v, extra) == v \o <<Pres(extra)>>
=============================================================================
