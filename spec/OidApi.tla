------------------------------- MODULE OidApi -------------------------------
(***************************************************************************)
(* The OBJECT IDENTIFIER / RELATIVE-OID arc API as a state machine over    *)
(* ONE object (C17, and the API contract of OBJECT_IDENTIFIER.h beyond it):*)
(*                                                                         *)
(*   Set(arcs)   OBJECT_IDENTIFIER_set_arcs / RELATIVE_OID_set_arcs        *)
(*   Load(o)     contents placed in the object as a decoder does           *)
(*   Get(slots)  OBJECT_IDENTIFIER_get_arcs / RELATIVE_OID_get_arcs        *)
(*                                                                         *)
(* State: obj = [src, o, arcs]: where the contents came from ("none": the  *)
(* zeroed structure, "set", "load"), the content octets, and for "set" the *)
(* vector they denote.  A failed Set leaves the object as it was; a        *)
(* successful one replaces the contents whatever the object held before.   *)
(* Clauses the text of C17 states are plain names; clauses that only the   *)
(* header documents (error returns, errno, RELATIVE-OID, contents that no  *)
(* Set produced) carry the prefix "x:" and are reported as notes.          *)
(***************************************************************************)
EXTENDS Helpers

ArcMax == IDec(IPow2(32)).mag                      \* asn_oid_arc_t is uint32_t
FitsArc(a) == NatCmp(a, ArcMax) <= 0
EINVAL == 22
ERANGE == 34

Fresh == [src |-> "none", o |-> <<>>, arcs |-> <<>>]

\* ---- what a vector may be set to -------------------------------------------------
\* OBJECT_IDENTIFIER.h: at least two arcs; 8.19.4: arc0 in 0..2, arc1 < 40 under 0 and 1;
\* under 2 the subidentifier 80 + arc1 has to fit the arc type
OidSettable(arcs) == /\ Len(arcs) >= 2
                     /\ FirstPairValid(arcs[1], arcs[2])
                     /\ (arcs[1] = <<2>> => NatCmp(arcs[2], NatSub(ArcMax, <<80>>)) <= 0)
RoidOctets(arcs) == ConcatAll([i \in DOMAIN arcs |-> Base128Big(arcs[i])])
SetErrno(kind, arcs) == IF Len(arcs) < 2 THEN EINVAL ELSE ERANGE
Settable(kind, arcs) == kind = "roid" \/ OidSettable(arcs)
ContentsOf(kind, arcs) == IF kind = "oid" THEN OidOctets(arcs) ELSE RoidOctets(arcs)

\* ---- reading contents ------------------------------------------------------------
\* subidentifiers of a content octet string; ok = FALSE when the last octet has bit 8 set
RECURSIVE SubIdsR(_, _, _, _)
SubIdsR(o, cur, mid, out) ==
  IF o = <<>> THEN [ok |-> ~mid, ids |-> out]
  ELSE LET v == NatAdd(NatMulSmall(cur, 128), NatOfInt(Head(o) % 128)) IN
       IF Head(o) >= 128 THEN SubIdsR(Tail(o), v, TRUE, out)
       ELSE SubIdsR(Tail(o), <<>>, FALSE, Append(out, v))
SubIds(o) == SubIdsR(o, <<>>, FALSE, <<>>)

\* 8.19.4 backwards: the first subidentifier is 40 * arc0 + arc1
SplitFirst(x) == IF NatCmp(x, <<80>>) >= 0 THEN <<<<2>>, NatSub(x, <<80>>)>>
                 ELSE IF NatCmp(x, <<40>>) >= 0 THEN <<<<1>>, NatSub(x, <<40>>)>>
                 ELSE <<<<>>, x>>
\* [ok, arcs]: the vector a content octet string denotes; not ok: malformed, empty OID, or an arc beyond the arc type
ArcsOf(kind, o) ==
  LET s == SubIds(o) IN
  IF ~s.ok THEN [ok |-> FALSE, why |-> "truncated"]
  ELSE IF \E i \in DOMAIN s.ids : ~FitsArc(s.ids[i]) THEN [ok |-> FALSE, why |-> "range"]
  ELSE IF kind = "roid" THEN [ok |-> TRUE, arcs |-> s.ids]
  ELSE IF s.ids = <<>> THEN [ok |-> FALSE, why |-> "empty"]
  ELSE [ok |-> TRUE, arcs |-> SplitFirst(s.ids[1]) \o Tail(s.ids)]

\* ---- transition function ---------------------------------------------------------
Post(kind, obj, op) ==
  CASE op.op = "set" -> IF Settable(kind, op.arcs) THEN [src |-> "set", o |-> ContentsOf(kind, op.arcs), arcs |-> op.arcs] ELSE obj
    [] op.op = "load" -> [src |-> "load", o |-> op.o, arcs |-> <<>>]
    [] OTHER -> obj

When(c, name) == IF c THEN {name} ELSE {}
Lesser(a, b) == IF a < b THEN a ELSE b
\* ev: [ret, errno, octets, isset, back, canary]; the set of violated clauses
Faults(kind, obj, op, ev) ==
  CASE op.op = "set" ->
         IF Settable(kind, op.arcs)
         THEN LET x == IF kind = "oid" THEN "" ELSE "x:" IN
              When(ev.ret # 0, x \o "valid-arcs-rejected")
              \cup When(ev.ret = 0 /\ ev.octets # ContentsOf(kind, op.arcs), x \o "contents-not-8.19")
         ELSE When(ev.ret = 0, "x:invalid-arcs-accepted")
              \cup When(ev.ret # 0 /\ ev.errno # SetErrno(kind, op.arcs), "x:errno-not-documented")
              \cup When(ev.octets # obj.o \/ ev.isset # (obj.src # "none"), "x:failed-set-changed-the-object")
    [] op.op = "load" -> When(ev.octets # op.o, "harness-load")
    [] op.op = "get" ->
         IF obj.src = "none" THEN When(ev.ret # -1, "x:unset-object-read") \cup When(ev.ret = -1 /\ ev.errno # EINVAL, "x:errno-not-documented")
         ELSE IF obj.src = "set"
         THEN LET x == IF kind = "oid" THEN "" ELSE "x:" IN
              When(ev.ret # Len(obj.arcs), x \o "arc-count-wrong")
              \cup When(ev.ret = Len(obj.arcs) /\ ev.back # SubSeq(obj.arcs, 1, Lesser(op.slots, Len(obj.arcs))), x \o "round-trip-differs")
              \cup When(~ev.canary, x \o "wrote-beyond-slots")
         ELSE LET r == ArcsOf(kind, obj.o) IN
              When(~ev.canary, "x:wrote-beyond-slots")
              \cup (IF r.ok THEN When(ev.ret # Len(r.arcs), "x:arc-count-wrong")
                                 \cup When(ev.ret = Len(r.arcs) /\ ev.back # SubSeq(r.arcs, 1, Lesser(op.slots, Len(r.arcs))), "x:arcs-differ")
                    ELSE When(ev.ret # -1, "x:malformed-contents-read-" \o r.why)
                         \cup When(ev.ret = -1 /\ r.why = "range" /\ ev.errno # ERANGE, "x:errno-not-documented"))
    [] OTHER -> {"unknown-op"}
=============================================================================
