---- MODULE MC_Threads ----
EXTENDS Threads
T == {"t1", "t2", "t3"}
S == [t \in T |-> <<"Build", "Encode", "Decode", "Free">>]
====
