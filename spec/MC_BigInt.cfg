
