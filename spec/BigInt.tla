------------------------------ MODULE BigInt ------------------------------
(***************************************************************************)
(* Arbitrary precision integers for TLC (whose native integers are 32 bit).*)
(* A natural number is a big-endian sequence of octets without leading     *)
(* zeros (zero is the empty sequence).  An integer is a record             *)
(* [neg |-> BOOLEAN, mag |-> natural]; zero is never negative.             *)
(* The representation is chosen so that the X.690 / X.691 / X.696 integer  *)
(* encodings (two's complement, minimal unsigned, fixed width) are direct. *)
(***************************************************************************)
EXTENDS Naturals, Integers, Sequences, SequencesExt

Octet == 0..255

Rev(s) == [i \in 1..Len(s) |-> s[Len(s) + 1 - i]]

RECURSIVE StripZ(_)
StripZ(s) == IF s # <<>> /\ Head(s) = 0 THEN StripZ(Tail(s)) ELSE s

Zeros(n) == [i \in 1..n |-> 0]
PadTo(a, n) == IF Len(a) >= n THEN a ELSE Zeros(n - Len(a)) \o a

\* ---- naturals -----------------------------------------------------------
NatZero == <<>>
IsNat(a) == a = StripZ(a)

RECURSIVE NatOfInt(_)
NatOfInt(n) == IF n = 0 THEN <<>> ELSE NatOfInt(n \div 256) \o <<n % 256>>

RECURSIVE LexCmp(_, _)     \* equal-length sequences
LexCmp(a, b) == IF a = <<>> THEN 0
                ELSE IF Head(a) < Head(b) THEN -1
                ELSE IF Head(a) > Head(b) THEN 1
                ELSE LexCmp(Tail(a), Tail(b))

NatCmp(a, b) == IF Len(a) < Len(b) THEN -1
                ELSE IF Len(a) > Len(b) THEN 1
                ELSE LexCmp(a, b)

RECURSIVE AddRev(_, _, _)  \* little-endian operands
AddRev(a, b, c) ==
  IF a = <<>> /\ b = <<>> THEN (IF c = 0 THEN <<>> ELSE <<c>>)
  ELSE LET x == IF a = <<>> THEN 0 ELSE Head(a)
           y == IF b = <<>> THEN 0 ELSE Head(b)
           s == x + y + c
       IN <<s % 256>> \o AddRev(IF a = <<>> THEN <<>> ELSE Tail(a),
                                IF b = <<>> THEN <<>> ELSE Tail(b), s \div 256)
NatAdd(a, b) == StripZ(Rev(AddRev(Rev(a), Rev(b), 0)))

RECURSIVE SubRev(_, _, _)  \* little-endian, a >= b
SubRev(a, b, br) ==
  IF a = <<>> THEN <<>>
  ELSE LET y == IF b = <<>> THEN 0 ELSE Head(b)
           d == Head(a) - y - br
       IN <<IF d < 0 THEN d + 256 ELSE d>> \o
          SubRev(Tail(a), IF b = <<>> THEN <<>> ELSE Tail(b), IF d < 0 THEN 1 ELSE 0)
NatSub(a, b) == StripZ(Rev(SubRev(Rev(a), Rev(b), 0)))     \* requires a >= b

NatInc(a) == NatAdd(a, <<1>>)
NatDec(a) == NatSub(a, <<1>>)
Pow256(n) == <<1>> \o Zeros(n)

RECURSIVE BitLenOctet(_)
BitLenOctet(x) == IF x = 0 THEN 0 ELSE 1 + BitLenOctet(x \div 2)
NatBitLen(a) == IF a = <<>> THEN 0 ELSE 8 * (Len(a) - 1) + BitLenOctet(a[1])

\* small multiplication / division (k < 2^20)
RECURSIVE MulRev(_, _, _)
MulRev(a, k, c) == IF a = <<>> THEN (IF c = 0 THEN <<>> ELSE Rev(NatOfInt(c)))
                   ELSE LET p == Head(a) * k + c
                        IN <<p % 256>> \o MulRev(Tail(a), k, p \div 256)
NatMulSmall(a, k) == StripZ(Rev(MulRev(Rev(a), k, 0)))

RECURSIVE DivAcc(_, _, _, _)   \* big-endian long division by small k
DivAcc(a, k, r, q) == IF a = <<>> THEN [q |-> StripZ(q), r |-> r]
                      ELSE LET cur == r * 256 + Head(a)
                           IN DivAcc(Tail(a), k, cur % k, q \o <<cur \div k>>)
NatDivMod(a, k) == DivAcc(a, k, 0, <<>>)

\* value of a small natural as a TLC integer (caller guarantees < 2^31)
RECURSIVE NatToInt(_)
NatToInt(a) == IF a = <<>> THEN 0 ELSE NatToInt(SubSeq(a, 1, Len(a) - 1)) * 256 + a[Len(a)]
NatFitsInt(a) == Len(a) < 4 \/ (Len(a) = 4 /\ a[1] < 128)

\* bits of a natural, big-endian, exactly n bits (caller guarantees it fits)
RECURSIVE OctetBits(_, _)
OctetBits(x, n) == IF n = 0 THEN <<>> ELSE OctetBits(x \div 2, n - 1) \o <<x % 2>>
RECURSIVE AllBits(_)
AllBits(a) == IF a = <<>> THEN <<>> ELSE OctetBits(Head(a), 8) \o AllBits(Tail(a))
NatBits(a, n) == LET nb == (n + 7) \div 8
                     all == AllBits(PadTo(a, nb))
                 IN SubSeq(all, Len(all) - n + 1, Len(all))

\* decimal digits (most significant first) of a natural
RECURSIVE NatDecimal(_)
NatDecimal(a) == IF a = <<>> THEN <<>>
                 ELSE LET dm == NatDivMod(a, 10) IN NatDecimal(dm.q) \o <<dm.r>>

\* ---- integers -----------------------------------------------------------
IZero == [neg |-> FALSE, mag |-> <<>>]
IOfInt(n) == IF n < 0 THEN [neg |-> TRUE, mag |-> NatOfInt(-n)]
             ELSE [neg |-> FALSE, mag |-> NatOfInt(n)]
IsZero(x) == x.mag = <<>>
INorm(neg, mag) == [neg |-> (neg /\ mag # <<>>), mag |-> mag]
INeg(x) == INorm(~x.neg, x.mag)

ICmp(x, y) == IF x.neg /\ ~y.neg THEN -1
              ELSE IF ~x.neg /\ y.neg THEN 1
              ELSE IF x.neg THEN NatCmp(y.mag, x.mag)
              ELSE NatCmp(x.mag, y.mag)
ILe(x, y) == ICmp(x, y) <= 0
ILt(x, y) == ICmp(x, y) < 0

IAdd(x, y) == IF x.neg = y.neg THEN INorm(x.neg, NatAdd(x.mag, y.mag))
              ELSE IF NatCmp(x.mag, y.mag) >= 0 THEN INorm(x.neg, NatSub(x.mag, y.mag))
              ELSE INorm(y.neg, NatSub(y.mag, x.mag))
ISub(x, y) == IAdd(x, INeg(y))
IInc(x) == IAdd(x, IOfInt(1))
IDec(x) == ISub(x, IOfInt(1))
IToInt(x) == IF x.neg THEN -NatToInt(x.mag) ELSE NatToInt(x.mag)
IFitsInt(x) == NatFitsInt(x.mag)
IPow2(k) == [neg |-> FALSE, mag |-> <<2^(k % 8)>> \o Zeros(k \div 8)]     \* 2^k
IMin(x, y) == IF ILe(x, y) THEN x ELSE y
IMax(x, y) == IF ILe(x, y) THEN y ELSE x

\* minimal two's complement octets (X.690 8.3), at least one octet
TwosC(x) ==
  IF ~x.neg THEN (IF x.mag = <<>> THEN <<0>>
                  ELSE IF x.mag[1] >= 128 THEN <<0>> \o x.mag ELSE x.mag)
  ELSE LET L == Len(x.mag)
           fits == x.mag[1] < 128 \/ (x.mag[1] = 128 /\ \A i \in 2..L : x.mag[i] = 0)
           n == IF fits THEN L ELSE L + 1
       IN PadTo(NatSub(Pow256(n), x.mag), n)

\* two's complement in exactly n octets (caller guarantees range)
TwosCFixed(x, n) == IF ~x.neg THEN PadTo(x.mag, n)
                    ELSE PadTo(NatSub(Pow256(n), x.mag), n)

\* inverse: integer denoted by a non-empty two's complement octet string
OfTwosC(o) == IF o[1] < 128 THEN [neg |-> FALSE, mag |-> StripZ(o)]
              ELSE INorm(TRUE, NatSub(Pow256(Len(o)), StripZ(o)))

UnsignedMin(x) == IF x.mag = <<>> THEN <<0>> ELSE x.mag      \* x >= 0

FitsSigned(x, n) ==   \* -2^(8n-1) <= x <= 2^(8n-1) - 1
  IF x.neg THEN ILe(INeg(IPow2(8 * n - 1)), x) ELSE ILt(x, IPow2(8 * n - 1))
FitsUnsigned(x, n) == ~x.neg /\ Len(x.mag) <= n

\* decimal text as a sequence of character codes
IDecimal(x) == (IF x.neg THEN <<45>> ELSE <<>>) \o
               (IF x.mag = <<>> THEN <<48>> ELSE [i \in 1..Len(NatDecimal(x.mag)) |-> 48 + NatDecimal(x.mag)[i]])
=============================================================================
