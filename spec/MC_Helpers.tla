----------------------------- MODULE MC_Helpers -----------------------------
(***************************************************************************)
(* Generator and judge for the helper APIs (C16, C17).                     *)
(* State machine: a call is chosen (Init), performed (Call: the result is  *)
(* what Helpers.tla prescribes) and exported; the trace specification      *)
(* explains each recorded call of the real library by the same relation.   *)
(***************************************************************************)
EXTENDS Helpers, Values, Json, IOUtils

CONSTANTS Family,        \* "int" | "real" | "num" | "oid" | "time"
          Dense          \* thorough tier: denser enumeration

VARIABLES call, done,
          l              \* position in the recorded log (trace validation only)
hvars == <<call, done, l>>

\* ---- scenario universes ---------------------------------------------------------
Edges == IntEdges \cup {I(3), I(-2), I(254), I(-255), I(-256), I(-257), IDec(INeg(IPow2(31))), IInc(IPow2(63)), IPow2(72), INeg(IPow2(72)),
                        IInc(INeg(IPow2(63))), IDec(IDec(IPow2(63))), IInc(IPow2(64)), IDec(IDec(IPow2(64)))}
SignOctet(o) == IF o[1] >= 128 THEN 255 ELSE 0
Padded(o, k) == [i \in 1..k |-> SignOctet(o)] \o o
IntCalls ==
  UNION {{[op |-> "int2c", ty |-> ty, x |-> x] : x \in {e \in Edges : Fits(ty, e)}} : ty \in CTypes}
  \cup {[op |-> "c2int", ty |-> ty, o |-> Padded(TwosC(x), k)] : ty \in CTypes, x \in Edges, k \in {0, 1, 2}}
  \cup {[op |-> "c2int", ty |-> ty, o |-> <<a>>] : ty \in CTypes, a \in 0..255}
  \cup (IF Dense THEN {[op |-> "c2int", ty |-> ty, o |-> <<a, b>>] : ty \in {"long", "ulong"}, a \in 0..255, b \in 0..255}
        ELSE {[op |-> "c2int", ty |-> ty, o |-> <<a, b>>] : ty \in {"long", "ulong"}, a \in {0, 1, 127, 128, 254, 255}, b \in {0, 1, 127, 128, 255}})

\* IEEE-754 binary64 from sign, biased exponent and a 52-bit fraction pattern
FracPattern(p) == CASE p = "zero" -> Zeros(52) [] p = "one" -> Zeros(51) \o <<1>> [] p = "top" -> <<1>> \o Zeros(51)
                    [] p = "ones" -> [i \in 1..52 |-> 1] [] p = "alt" -> [i \in 1..52 |-> i % 2]
                    [] p = "byte" -> Zeros(44) \o <<1, 0, 0, 0, 0, 0, 0, 0>> [] p = "mid" -> Zeros(20) \o <<1>> \o Zeros(31)
DblOf(s, e, p) == PackLeft(<<s>> \o NatBits(NatOfInt(e), 11) \o FracPattern(p))
Exps == IF Dense THEN 0..2047
        ELSE {0, 1, 2, 52, 53, 126, 127, 128, 895, 896, 897, 947, 948, 949, 1022, 1023, 1024, 1025, 1074, 1075, 1076, 1150, 1151, 1278, 2045, 2046, 2047}
             \cup {e \in 0..2047 : e % 41 = 0}
RealCalls ==
  {[op |-> "d2r", d |-> DblOf(s, e, p)] : s \in {0, 1}, e \in Exps, p \in {"zero", "one", "top", "ones", "alt", "byte", "mid"}}
  \cup {[op |-> "d2r", d |-> d] : d \in Doubles \cup Subnormals}

Txt(x) == IDecimal(x)
NumCalls ==
  LET nums == Edges \cup {ISub(IPow2(63), I(10)), IAdd(IPow2(63), I(10)), IAdd(IPow2(64), I(5)), IPow2(80),
                           [neg |-> FALSE, mag |-> NatMulSmall(IDec(IPow2(63)).mag, 10)],
                           [neg |-> FALSE, mag |-> NatMulSmall(IDec(IPow2(64)).mag, 10)]}
  IN UNION {UNION {{[op |-> "num", ty |-> ty, txt |-> Txt(x)],
                    [op |-> "num", ty |-> ty, txt |-> (IF x.neg THEN <<45, 48, 48>> \o Tail(Txt(x)) ELSE <<48, 48, 48>> \o Txt(x))]} :
                   x \in {y \in nums : Signed(ty) \/ ~y.neg}} : ty \in CTypes}

N(n) == NatOfInt(n)
ArcEdges == {N(0), N(1), N(39), N(40), N(47), N(79), N(80), N(127), N(128), N(16383), N(16384), N(2097151), N(2097152),
             IPow2(31).mag, IDec(IPow2(32)).mag}
OidCalls ==
  LET pairs == {<<a, b>> \in ({N(0), N(1), N(2)} \X {N(0), N(1), N(39), N(40), N(47), N(175), N(16304), IDec(IPow2(31)).mag, ISub(IDec(IPow2(32)), I(80)).mag}) :
                  FirstPairValid(a, b)}
      tails == {<<>>} \cup {<<x>> : x \in ArcEdges} \cup {<<x, y>> : x \in {N(0), N(127), N(128), IDec(IPow2(32)).mag}, y \in {N(1), N(16384), IDec(IPow2(32)).mag}}
               \cup {<<N(1), N(2), N(3), N(4), N(5), N(6), N(7), N(8), N(9), N(10), N(11)>>}
               \* long vectors of maximal arcs: the contents need 5 octets per arc (every size estimate is exercised)
               \cup {[i \in 1..n |-> IDec(IPow2(32)).mag] : n \in {12, 22, 38, 62}}
               \cup {[i \in 1..n |-> IPow2(28).mag] : n \in {13, 30}}
      vecs == {<<p[1], p[2]>> \o t : p \in pairs, t \in tails}
  IN {[op |-> "setarcs", arcs |-> v] : v \in vecs}
     \cup {[op |-> "parse", arcs |-> v] : v \in vecs}
     \cup {[op |-> "getarcs", arcs |-> v, slots |-> k] : v \in {w \in vecs : Len(w) >= 3}, k \in {0, 1, 2, 3, 10}}

\* days since the epoch at which something changes: epoch, leap days, century rules, 2038, 2106, year 1 / 9999
DayEdges == {0, -1, 1, 58, 59, 60, 365, 366, 789, 790, 10956, 10957, 11015, 11016, 11017, 11322, 11323, 24836, 24837, 24855, 24856, 47540, 47541, 47599, 47600,
             49710, 49711, -25567, -25568, -7305, -7306, -3653, -3652, -719162, -719163, 2932896, 2932895, 29219, 29220, 32872, 32873, -7304, 19358, 19359}
SodEdges == {0, 1, 59, 60, 3599, 3600, 43199, 43200, 86399}
TZs == <<"UTC0", "NST3:30NDT", "IST-5:30", "LHST-10:30LHDT-11,M10.1.0,M4.1.0", "MART9:30", "NPT-5:45", "EST5EDT,M3.2.0,M11.1.0", "LINT-14">>
TimeCalls ==
  UNION {{[op |-> "time", days |-> d, sod |-> s, frac |-> f, tz |-> TZs[z]] :
            s \in {x \in (IF Dense THEN SodEdges ELSE {0, 3599, 43200, 86399}) : ~(d = -1 /\ x = 86399)},   \* (time_t)-1 is the API's error value
            f \in (IF Dense THEN {<<>>, <<53>>, <<49, 50, 51>>, <<48, 48, 49>>} ELSE {<<>>, <<49, 50, 51>>}),
            z \in DOMAIN TZs} : d \in DayEdges}

\* the days on which the DST zones above change their offset (2021 and 2037: second Sunday of March / first of November for
\* EST5EDT, first Sunday of October / April for Lord Howe), the day before and after, every hour of the day
DstDays == {18700, 18938, 18903, 18721, 24538, 24776}
DstCalls ==
  {[op |-> "time", days |-> d + dd, sod |-> 3600 * h + 3311, frac |-> <<>>, tz |-> TZs[z]] :
     d \in DstDays, dd \in {-1, 0, 1}, h \in 0..23, z \in DOMAIN TZs}

\* conversions into ONE object, one after the other: what a conversion stores and reads back does not depend on
\* what the object held before (a longer / shorter value, a special REAL, another C type's conversion)
ReuseInts == {[op |-> "int2c", ty |-> p[1], x |-> p[2]] :
                p \in {<<"long", I(0)>>, <<"long", I(127)>>, <<"long", I(128)>>, <<"long", I(-129)>>, <<"imax", IPow2(31)>>, <<"long", INeg(IPow2(63))>>,
                        <<"imax", IDec(IPow2(63))>>, <<"umax", IDec(IPow2(64))>>, <<"ulong", I(255)>>, <<"umax", I(0)>>}}
ReuseReals == {[op |-> "d2r", d |-> d] :
                 d \in {DblOf(0, 0, "zero"), DblOf(1, 0, "zero"), DblOf(0, 2047, "zero"), DblOf(1, 2047, "zero"), DblOf(0, 2047, "top"),
                         DblOf(0, 1023, "zero"), DblOf(0, 1020, "alt"), DblOf(0, 2046, "ones"), DblOf(0, 1, "zero"), DblOf(1, 1024, "top")}}
Scripts(S, kind) == {[op |-> "script", kind |-> kind, steps |-> <<a, b>>] : a \in S, b \in S}
                    \cup (IF Dense THEN {[op |-> "script", kind |-> kind, steps |-> <<a, b, c>>] : a \in S, b \in S, c \in S} ELSE {})
ReuseCalls == Scripts(ReuseInts, "int") \cup Scripts(ReuseReals, "real")

Calls == CASE Family = "reuse" -> ReuseCalls [] Family = "int" -> IntCalls [] Family = "real" -> RealCalls [] Family = "num" -> NumCalls
           [] Family = "oid" -> OidCalls [] Family = "time" -> TimeCalls \cup DstCalls

\* ---- the state machine ----------------------------------------------------------
Init == \E c \in Calls : call = c /\ done = FALSE /\ l = 0
Call == ~done /\ done' = TRUE /\ UNCHANGED <<call, l>>
Next == Call
Export == done => PrintT(<<"SCN", ToJson(call)>>)

\* model-level sanity of the reference itself
RefSound ==
  CASE call.op = "int2c" -> OfTwosC(IntContents(call.x)) = call.x
    [] call.op = "d2r" -> LET c == RealContents(call.d) IN Len(c) <= 10
    [] OTHER -> TRUE

\* ---- judge ------------------------------------------------------------------------
\* what must the recorded call report?  set of violated clause names
When(c, name) == IF c THEN {name} ELSE {}
NaN(d) == d[1] % 128 = 127 /\ d[2] >= 240 /\ ~(d[2] = 240 /\ \A i \in 3..8 : d[i] = 0)
CanonNaN == <<127, 248, 0, 0, 0, 0, 0, 0>>
HFaults1(c, ev) ==
  CASE c.op = "int2c" ->
         When(ev.ret # 0, "conversion-failed")
         \cup When(ev.octets # IntContents(c.x), "contents-not-minimal-twos-complement")
         \cup When(ev.back_ret # 0, "back-conversion-failed")
         \cup When(ev.back_ret = 0 /\ ev.back # c.x, "round-trip-differs")
    [] c.op = "c2int" ->
         LET r == IntOfContents(c.ty, c.o) IN
         IF r.ok THEN When(ev.ret # 0, "in-range-value-rejected") \cup When(ev.ret = 0 /\ ev.v # r.v, "wrong-value")
         ELSE When(ev.ret = 0, "out-of-range-value-accepted") \cup When(ev.ret # 0 /\ ev.errno # 34, "errno-not-ERANGE")
    [] c.op = "d2r" ->
         When(ev.ret # 0, "conversion-failed")
         \cup When(ev.octets # RealContents(IF NaN(c.d) THEN CanonNaN ELSE c.d), "contents-not-DER")
         \cup When(ev.back_ret # 0, "back-conversion-failed")
         \cup When(ev.back_ret = 0 /\ ev.back # (IF NaN(c.d) THEN CanonNaN ELSE c.d), "round-trip-differs")
    [] c.op = "num" ->
         LET r == ParseNumeral(c.ty, c.txt) IN
         IF r.r = "OK" THEN When(ev.r # "OK", "in-range-numeral-rejected") \cup When(ev.r = "OK" /\ ev.v # r.v, "wrong-value")
         ELSE When(ev.r # "RANGE", "out-of-range-numeral-not-rejected")
    [] c.op = "setarcs" ->
         When(ev.ret # 0, "valid-arcs-rejected")
         \cup When(ev.ret = 0 /\ ev.octets # OidOctets(c.arcs), "contents-not-8.19")
         \cup When(ev.ret = 0 /\ (ev.count # Len(c.arcs) \/ ev.back # c.arcs), "round-trip-differs")
    [] c.op = "getarcs" ->
         \* OBJECT_IDENTIFIER.h: the return value is the real number of arcs even if fewer slots were given
         When(ev.count # Len(c.arcs), "arc-count-wrong")
         \cup When(ev.back # SubSeq(c.arcs, 1, IF c.slots < Len(c.arcs) THEN c.slots ELSE Len(c.arcs)), "arcs-differ")
         \cup When(~ev.canary, "wrote-beyond-slots")
    [] c.op = "parse" ->
         When(ev.count # Len(c.arcs), "parse-count-wrong") \cup When(ev.count = Len(c.arcs) /\ ev.back # c.arcs, "parse-differs")
    [] c.op = "time" ->
         When(ev.gt # GTText(c.days, c.sod, c.frac), "generalizedtime-text")
         \cup When(~ev.gt_back_ok, "generalizedtime-round-trip")
         \cup (IF InUTTextWindow(c.days) THEN When(ev.ut # UTText(c.days, c.sod), "utctime-text") ELSE {})
         \cup (IF InUTWindow(c.days) THEN When(~ev.ut_back_ok, "utctime-round-trip") ELSE {})
    [] OTHER -> {"unknown-op"}

HFaults(c, ev) == IF c.op = "script"
                  THEN When(Len(ev.steps) # Len(c.steps), "script-not-completed")
                       \cup UNION {HFaults1(c.steps[i], ev.steps[i]) : i \in 1..(IF Len(ev.steps) < Len(c.steps) THEN Len(ev.steps) ELSE Len(c.steps))}
                  ELSE HFaults1(c, ev)

Scn == ndJsonDeserialize(IOEnv.VERIF_SCENARIOS)
Log == ndJsonDeserialize(IOEnv.VERIF_TRACE)
TInit == l = 1 /\ call = [op |-> "none"] /\ done = FALSE
Ev == Log[l]
\* an explained call: the spec's own Call step from the scenario the event belongs to
TCall == /\ l <= Len(Log) /\ Ev.a = "Call" /\ HFaults(Scn[Ev.id], Ev) = {}
         /\ call' = Scn[Ev.id] /\ done' = TRUE /\ l' = l + 1
TBad == /\ l <= Len(Log)
        /\ LET f == IF Ev.a = "Call" THEN HFaults(Scn[Ev.id], Ev) ELSE {IF Ev.a = "Timeout" THEN "timeout" ELSE "crash"} IN
           /\ f # {}
           /\ PrintT(<<"MISMATCH", ToJson([id |-> Ev.id, i |-> 1, l |-> l, reasons |-> SetSeq(f)])>>)
        /\ call' = Scn[Ev.id] /\ done' = FALSE /\ l' = l + 1
TNext == TCall \/ TBad
TraceAccepted == TLCGet("stats").diameter - 1 = Len(Log)
=============================================================================
