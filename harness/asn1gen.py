"""Rendering of the specification's abstract syntax (type terms exported by TLC as
JSON) into ASN.1 module text, and conversion of abstract values between the
specification's vocabulary and the driver's token / projection formats.

This is concrete syntax and data marshalling only: nothing here knows any
encoding rule."""
import json


# ---- big integers (spec: {"neg":bool,"mag":[big-endian octets]}) ------------
def big_to_int(b):
    n = 0
    for o in b["mag"]:
        n = n * 256 + o
    return -n if b["neg"] else n


def int_to_big(n):
    neg = n < 0
    m = -n if neg else n
    mag = []
    while m:
        mag.append(m & 255)
        m >>= 8
    mag.reverse()
    return {"neg": neg and bool(mag), "mag": mag}


def twos_complement_hex(n):
    """minimal two's complement octets of n, as hex"""
    length = 1
    while not (-(1 << (8 * length - 1)) <= n < (1 << (8 * length - 1))):
        length += 1
    return (n & ((1 << (8 * length)) - 1)).to_bytes(length, "big").hex()


def from_twos_complement(b):
    if not b:
        return None
    n = int.from_bytes(b, "big")
    if b[0] & 0x80:
        n -= 1 << (8 * len(b))
    return n


# ---- constraints ---------------------------------------------------------------
def bound(b):
    if b["k"] == "MIN":
        return "MIN"
    if b["k"] == "MAX":
        return "MAX"
    return str(big_to_int(b["v"]))


def cexpr(c):
    """element-set text without the outer parentheses"""
    op = c["op"]
    if op == "range":
        lo, hi = bound(c["lb"]), bound(c["ub"])
        return lo if lo == hi else "%s..%s" % (lo, hi)
    if op == "ext":
        s = cexpr(c["a"]) + ", ..."
        if c["b"]["op"] != "none":
            s += ", " + cexpr(c["b"])
        return s
    if op == "union":
        return "%s | %s" % (cpar(c["a"]), cpar(c["b"]))
    if op == "inter":
        return "%s ^ %s" % (cpar(c["a"]), cpar(c["b"]))
    if op == "except":
        return "%s EXCEPT %s" % (cpar(c["a"]), cpar(c["b"]))
    if op == "allexcept":
        return "ALL EXCEPT %s" % cpar(c["a"])
    raise ValueError(op)


def cpar(c):
    if c["op"] == "range":
        return cexpr(c)
    return "(" + cexpr(c) + ")"


def constraint(c, wrap=None):
    """full constraint text incl. parentheses; wrap = 'SIZE' for size constraints"""
    if c["op"] == "none":
        return ""
    if c["op"] == "serial":
        return constraint(c["a"], wrap) + constraint(c["b"], wrap)
    body = cexpr(c)
    if wrap:
        # SIZE(a, ...) keeps the extension marker inside SIZE
        return " (%s(%s))" % (wrap, body)
    return " (" + body + ")"


def asn_string(cps):
    return '"' + "".join(chr(c) if c != 34 else '""' for c in cps) + '"'


STRING_NAMES = {"IA5": "IA5String", "Visible": "VisibleString", "Printable": "PrintableString",
                "Numeric": "NumericString", "UTF8": "UTF8String", "BMP": "BMPString",
                "Universal": "UniversalString", "UTCTime": "UTCTime",
                "GeneralizedTime": "GeneralizedTime"}
CLASS_NAMES = {"U": "UNIVERSAL ", "A": "APPLICATION ", "C": "", "P": "PRIVATE "}


class Module:
    def __init__(self, mod):
        self.mod = mod
        self.name = mod["name"]
        self.env = {d["n"]: d["t"] for d in mod["defs"]}

    def all_names(self):
        if not hasattr(self, "_names"):
            acc = set(STRING_NAMES.values()) | {"BOOLEAN", "INTEGER", "NULL", "REAL", "ENUMERATED", "BIT STRING", "OCTET STRING",
                                                "OBJECT IDENTIFIER", "RELATIVE-OID", "SEQUENCE", "SET", "CHOICE",
                                                "SEQUENCE OF", "SET OF", "NativeInteger", "NativeEnumerated", "NativeReal"}

            def walk(t):
                if isinstance(t, dict):
                    for k, v in t.items():
                        if k == "n" and isinstance(v, str):
                            acc.add(v)
                        else:
                            walk(v)
                elif isinstance(t, list):
                    for x in t:
                        walk(x)
            walk(self.mod)
            self._names = acc
        return self._names

    # -- type helpers
    def with_c(self, b, c):
        """serial application of constraint c to the type reached through references and tags"""
        b = dict(b)
        k = b["k"]
        if k == "INTEGER":
            b["c"] = c if b["c"]["op"] == "none" else {"op": "serial", "a": b["c"], "b": c}
        elif k in ("OCTETS", "BITS", "STRING", "SEQOF", "SETOF"):
            b["size"] = c if b["size"]["op"] == "none" else {"op": "serial", "a": b["size"], "b": c}
        elif k == "REF":
            b = {"k": "REFC", "n": b["n"], "c": c}
        elif k == "REFC":
            b["c"] = {"op": "serial", "a": b["c"], "b": c}
        elif k == "TAGGED":
            b["t"] = self.with_c(b["t"], c)
        return b

    def follow(self, t):
        return self.env[t["n"]] if t["k"] == "REF" else self.with_c(self.env[t["n"]], t["c"])

    def deref(self, t):
        while t["k"] in ("REF", "REFC"):
            t = self.follow(t)
        return t

    def resolve(self, t):
        while t["k"] in ("REF", "REFC", "TAGGED"):
            t = self.follow(t) if t["k"] != "TAGGED" else t["t"]
        return t

    def comps(self, t):
        return list(t["comps"]) + list(t["adds"])

    # -- rendering
    def default_text(self, t, v):
        t = self.resolve(t)
        k = t["k"]
        if k == "INTEGER":
            return str(big_to_int(v))
        if k == "BOOLEAN":
            return "TRUE" if v else "FALSE"
        if k == "NULL":
            return "NULL"
        if k == "ENUM":
            for it in list(t["root"]) + list(t["adds"]):
                if it["v"] == v:
                    return it["n"]
        if k == "STRING":
            return asn_string(v)
        if k == "OCTETS":
            return "'" + bytes(v).hex().upper() + "'H"
        if k == "BITS":
            bits = "".join(format(o, "08b") for o in v["o"])[:v["n"]]
            return "'" + bits + "'B"
        raise ValueError("default of kind " + k)

    def comp_list(self, t, ind):
        out = []
        pad = "    " * (ind + 1)

        def one(c):
            s = pad + c["n"] + " " + self.type_text(c["t"], ind + 1)
            if c["o"] == "O":
                s += " OPTIONAL"
            elif c["o"] == "D":
                s += " DEFAULT " + self.default_text(c["t"], c["d"])
            return s
        for c in t["comps"]:
            out.append(one(c))
        if t["ext"]:
            out.append(pad + "...")
            for c in t["adds"]:
                out.append(one(c))
        return "{\n" + ",\n".join(out) + "\n" + "    " * ind + "}" if out else "{ }"

    def type_text(self, t, ind=0):
        k = t["k"]
        if k == "BOOLEAN":
            return "BOOLEAN"
        if k == "NULL":
            return "NULL"
        if k == "REAL":
            return "REAL"
        if k == "OID":
            return "OBJECT IDENTIFIER"
        if k == "RELOID":
            return "RELATIVE-OID"
        if k == "INTEGER":
            return "INTEGER" + constraint(t["c"])
        if k == "ENUM":
            items = ["%s(%d)" % (i["n"], i["v"]) for i in t["root"]]
            if t["ext"]:
                items.append("...")
                items += ["%s(%d)" % (i["n"], i["v"]) for i in t["adds"]]
            return "ENUMERATED { " + ", ".join(items) + " }"
        if k == "BITS":
            return "BIT STRING" + constraint(t["size"], "SIZE")
        if k == "OCTETS":
            return "OCTET STRING" + constraint(t["size"], "SIZE")
        if k == "STRING":
            s = STRING_NAMES[t["st"]]
            if t["alpha"]:
                s += " (FROM(" + asn_string(t["alpha"]) + "))"
            return s + constraint(t["size"], "SIZE")
        if k == "SEQUENCE" and t.get("ioc"):
            setname = self.ioc_sets[json.dumps(t["comps"][1]["t"], sort_keys=True)]
            idn, valn = t["comps"][0]["n"], t["comps"][1]["n"]
            cls = "VCLO" if t["comps"][1]["t"]["comps"][0]["oid"] else "VCLS"
            return "SEQUENCE {\n    %s %s.&id({%s}),\n    %s %s.&Type({%s}{@%s})%s\n}" % (
                idn, cls, setname, valn, cls, setname, idn, " OPTIONAL" if t["comps"][1]["o"] == "O" else "")
        if k in ("SEQUENCE", "SET", "CHOICE"):
            return k + " " + self.comp_list(t, ind)
        if k in ("SEQOF", "SETOF"):
            kw = "SEQUENCE" if k == "SEQOF" else "SET"
            return kw + constraint(t["size"], "SIZE") + " OF " + self.type_text(t["t"], ind)
        if k == "TAGGED":
            mode = {"I": " IMPLICIT", "E": " EXPLICIT", "D": ""}[t["mode"]]
            return "[%s%d]%s %s" % (CLASS_NAMES[t["cl"]], t["num"], mode, self.type_text(t["t"], ind))
        if k == "REF":
            return t["n"]
        if k == "REFC":
            base = self.resolve(t)
            return t["n"] + constraint(t["c"], None if base["k"] == "INTEGER" else "SIZE")
        raise ValueError(k)

    def text(self):
        lines = ["%s DEFINITIONS %s TAGS ::= BEGIN" % (self.name, self.mod["tagging"]), ""]
        # information object class and object sets used by the module's open types
        self.ioc_sets = {}
        for d in self.mod["defs"]:
            t = d["t"]
            if t.get("k") == "SEQUENCE" and t.get("ioc"):
                key = json.dumps(t["comps"][1]["t"], sort_keys=True)
                if key not in self.ioc_sets:
                    self.ioc_sets[key] = "RowSet%d" % (len(self.ioc_sets) + 1)
        if self.ioc_sets:
            lines += ["VCLS ::= CLASS { &id INTEGER UNIQUE, &Type } WITH SYNTAX { &Type IDENTIFIED BY &id }", ""]
            lines += ["VCLO ::= CLASS { &id OBJECT IDENTIFIER UNIQUE, &Type } WITH SYNTAX { &Type IDENTIFIED BY &id }", ""]
            for key, name in self.ioc_sets.items():
                ot = json.loads(key)
                isoid = bool(ot["comps"][0]["oid"])
                idtext = (lambda r: "{ %s }" % " ".join(str(a) for a in r["oid"])) if isoid else (lambda r: "%d" % r["id"])
                rows = " | ".join("{%s IDENTIFIED BY %s}" % (self.type_text(r["t"]), idtext(r)) for r in ot["comps"])
                lines += ["%s %s ::= { %s%s }" % (name, "VCLO" if isoid else "VCLS", rows, ", ..." if ot["ext"] else ""), ""]
        for d in self.mod["defs"]:
            lines.append("%s ::= %s" % (d["n"], self.type_text(d["t"])))
            lines.append("")
        lines.append("END")
        return "\n".join(lines) + "\n"

    # -- values: spec vocabulary -> driver tokens
    def tokens(self, t, v, rep=None):
        t = self.resolve(t)
        k = t["k"]
        if k == "BOOLEAN":
            return [("T2" if rep == "true" else "T") if v else "F"]
        if k == "NULL":
            return ["N"]
        if k == "INTEGER":
            n = big_to_int(v)
            h = twos_complement_hex(n)
            if rep == "pad":
                h = ("ffff" if n < 0 else "0000") + h
            return ["I%d/%s" % (n, h)]
        if k == "ENUM":
            return ["E%d/%s" % (v, twos_complement_hex(v))]
        if k == "REAL":
            return ["R" + bytes(v).hex()]
        if k == "BITS":
            o = list(v["o"])
            if rep == "noise" and v["n"] % 8:
                o[-1] |= (1 << (8 - v["n"] % 8)) - 1
            return ["B%d:%s" % (v["n"], bytes(o).hex())]
        if k == "OCTETS":
            return ["O" + bytes(v).hex()]
        if k == "STRING":
            return ["O" + string_bytes(t["st"], v).hex()]
        if k == "OID":
            return ["D" + ".".join(str(a) for a in v)]
        if k == "RELOID":
            return ["L" + ".".join(str(a) for a in v)]
        if k in ("SEQUENCE", "SET"):
            out = ["{"]
            for c, e in zip(self.comps(t), v):
                if len(e) == 1:
                    out += self.tokens(c["t"], e[0], rep)
                elif rep == "defaults" and c["o"] == "D":
                    out += self.tokens(c["t"], c["d"], rep)
                else:
                    out += ["-"]
            return out + ["}"]
        if k in ("CHOICE", "OPEN"):
            cs = self.comps(t)
            idx = [c["n"] for c in cs].index(v[0])
            return ["C%d" % idx] + self.tokens(cs[idx]["t"], v[1], rep)
        if k in ("SEQOF", "SETOF"):
            out = ["["]
            for e in (reversed(v) if rep == "perm" and k == "SETOF" else v):
                out += self.tokens(t["t"], e, rep)
            return out + ["]"]
        raise ValueError(k)

    # -- values: driver projection -> spec vocabulary; raises Malformed
    def unproject(self, t, p):
        t = self.resolve(t)
        k = t["k"]
        try:
            if k == "BOOLEAN":
                return bool(p["T"])
            if k == "NULL":
                if p != "NULL":
                    raise Malformed()
                return "NULL"
            if k == "INTEGER":
                if "I" in p:
                    return int_to_big(int(p["I"]))
                n = from_twos_complement(bytes.fromhex(p["Iw"]))
                if n is None:
                    raise Malformed()
                return int_to_big(n)
            if k == "ENUM":
                if "E" in p:
                    n = p["E"]
                else:
                    n = from_twos_complement(bytes.fromhex(p["Ew"]))
                if n is None or not -2**31 < n < 2**31:
                    raise Malformed()
                return n
            if k == "REAL":
                return list(bytes.fromhex(p["R"]))
            if k == "BITS":
                o = list(bytes.fromhex(p["h"]))
                n = p["B"]
                if n < 0 or len(o) != (n + 7) // 8:
                    raise Malformed()
                if n % 8:
                    o[-1] &= (0xFF << (8 - n % 8)) & 0xFF      # unused bits are not part of the value
                return {"n": n, "o": o}
            if k == "OCTETS":
                return list(bytes.fromhex(p["O"]))
            if k == "STRING":
                return string_codepoints(t["st"], bytes.fromhex(p["O"]))
            if k in ("OID", "RELOID"):
                arcs = [int(a) for a in p["D"]]
                if any(a >= 2**31 for a in arcs):
                    raise Malformed()
                return arcs
            if k in ("SEQUENCE", "SET"):
                cs = self.comps(t)
                q = p["Q"]
                if len(q) != len(cs):
                    raise Malformed()
                return [[] if e is None else [self.unproject(c["t"], e)] for c, e in zip(cs, q)]
            if k in ("CHOICE", "OPEN"):
                cs = self.comps(t)
                if p["C"] < 0 or p["C"] >= len(cs):
                    raise Malformed()
                return [cs[p["C"]]["n"], self.unproject(cs[p["C"]]["t"], p["v"])]
            if k in ("SEQOF", "SETOF"):
                return [self.unproject(t["t"], e) for e in p["L"]]
        except (KeyError, TypeError, ValueError, IndexError, AttributeError):
            raise Malformed()
        raise Malformed()


class Malformed(Exception):
    pass


def string_bytes(st, cps):
    if st == "UTF8":
        out = bytearray()
        for c in cps:
            if c < 0x80:
                out.append(c)
            elif c < 0x800:
                out += bytes([0xC0 | c >> 6, 0x80 | c & 63])
            elif c < 0x10000:
                out += bytes([0xE0 | c >> 12, 0x80 | (c >> 6) & 63, 0x80 | c & 63])
            else:
                out += bytes([0xF0 | c >> 18, 0x80 | (c >> 12) & 63, 0x80 | (c >> 6) & 63, 0x80 | c & 63])
        return bytes(out)
    if st == "BMP":
        return b"".join(c.to_bytes(2, "big") for c in cps)
    if st == "Universal":
        return b"".join(c.to_bytes(4, "big") for c in cps)
    return bytes(cps)


def string_codepoints(st, b):
    if st == "UTF8":
        out = []
        i = 0
        while i < len(b):
            c = b[i]
            if c < 0x80:
                n, v = 0, c
            elif c >> 5 == 6:
                n, v = 1, c & 31
            elif c >> 4 == 14:
                n, v = 2, c & 15
            elif c >> 3 == 30:
                n, v = 3, c & 7
            else:
                raise Malformed()
            if i + n >= len(b):
                raise Malformed()
            for j in range(n):
                if b[i + 1 + j] >> 6 != 2:
                    raise Malformed()
                v = v << 6 | b[i + 1 + j] & 63
            out.append(v)
            i += n + 1
        return out
    if st == "BMP":
        if len(b) % 2:
            raise Malformed()
        return [int.from_bytes(b[i:i + 2], "big") for i in range(0, len(b), 2)]
    if st == "Universal":
        if len(b) % 4:
            raise Malformed()
        return [int.from_bytes(b[i:i + 4], "big") for i in range(0, len(b), 4)]
    return list(b)


def same_shape(a, b):
    """structural comparability for TLC (which raises on comparing values of different sorts)"""
    if isinstance(a, bool) or isinstance(b, bool):
        return isinstance(a, bool) and isinstance(b, bool)
    if isinstance(a, int):
        return isinstance(b, int)
    if isinstance(a, str):
        return isinstance(b, str)
    if isinstance(a, list):
        return isinstance(b, list)      # sequences of different lengths compare fine
    if isinstance(a, dict):
        return isinstance(b, dict) and set(a) == set(b) and all(same_shape(a[k], b[k]) for k in a)
    return False
