"""Predicates used by known_findings.json entries ("pred": name).  Each predicate says
whether a scenario (module, type, value, operation) contains the specific input class
a recorded finding is about, so that a different violation of the same property is
still reported."""
from asn1gen import big_to_int


def leaves(M, t, v):
    """yield (resolved leaf type, leaf value) of an abstract value"""
    t = M.resolve(t)
    k = t["k"]
    if k in ("SEQUENCE", "SET"):
        for c, e in zip(M.comps(t), v):
            if len(e) == 1:
                yield from leaves(M, c["t"], e[0])
        yield (t, v)
    elif k in ("CHOICE", "OPEN"):
        for c in M.comps(t):
            if c["n"] == v[0]:
                yield from leaves(M, c["t"], v[1])
        yield (t, v)
    elif k in ("SEQOF", "SETOF"):
        for e in v:
            yield from leaves(M, t["t"], e)
        yield (t, v)
    else:
        yield (t, v)


def types_in(M, t, seen=None):
    """all type terms reachable from t (unresolved terms, incl. tagged/ref wrappers)"""
    seen = seen if seen is not None else set()
    yield t
    k = t["k"]
    if k in ("REF", "REFC"):
        if k == "REFC":
            yield M.resolve(t)
        if t["n"] not in seen:
            seen.add(t["n"])
            yield from types_in(M, M.env[t["n"]], seen)
    elif k == "TAGGED":
        yield from types_in(M, t["t"], seen)
    elif k in ("SEQUENCE", "SET", "CHOICE", "OPEN"):
        for c in M.comps(t):
            yield from types_in(M, c["t"], seen)
    elif k in ("SEQOF", "SETOF"):
        yield from types_in(M, t["t"], seen)


def eff_simple(c):
    """(lb, ub, ext) of a simple constraint (none/range/ext(range)); None bounds = open"""
    ext = False
    if c["op"] == "ext":
        ext, c = True, c["a"]
    if c["op"] == "none":
        return None
    if c["op"] != "range":
        return ("?", "?", ext)
    lb = None if c["lb"]["k"] != "V" else big_to_int(c["lb"]["v"])
    ub = None if c["ub"]["k"] != "V" else big_to_int(c["ub"]["v"])
    return (lb, ub, ext)


def hull(c):
    """(lb, ub) hull of the root of any constraint expression; None = open; None result = unconstrained"""
    op = c["op"]
    if op == "none":
        return None
    if op == "range":
        return (None if c["lb"]["k"] != "V" else big_to_int(c["lb"]["v"]), None if c["ub"]["k"] != "V" else big_to_int(c["ub"]["v"]))
    if op in ("ext", "except"):
        return hull(c["a"])
    if op == "allexcept":
        return None
    a, b = hull(c["a"]), hull(c["b"])
    if op == "union":
        if a is None or b is None:
            return None
        return (None if None in (a[0], b[0]) else min(a[0], b[0]), None if None in (a[1], b[1]) else max(a[1], b[1]))
    # inter / serial: the intersection
    if a is None:
        return b
    if b is None:
        return a
    lo = [x for x in (a[0], b[0]) if x is not None]
    hi = [x for x in (a[1], b[1]) if x is not None]
    return (max(lo) if lo else None, min(hi) if hi else None)


def sat(c, x):
    """does the integer x satisfy the (root of the) constraint expression c?"""
    op = c["op"]
    if op == "none":
        return True
    if op == "range":
        return (c["lb"]["k"] != "V" or big_to_int(c["lb"]["v"]) <= x) and (c["ub"]["k"] != "V" or x <= big_to_int(c["ub"]["v"]))
    if op == "ext":
        return sat(c["a"], x) or sat(c["b"], x) if c["b"]["op"] != "none" else sat(c["a"], x)
    if op == "union":
        return sat(c["a"], x) or sat(c["b"], x)
    if op in ("inter", "serial"):
        return sat(c["a"], x) and sat(c["b"], x)
    if op == "except":
        return sat(c["a"], x) and not sat(c["b"], x)
    if op == "allexcept":
        return not sat(c["a"], x)
    return True


def has_op(c, name):
    return c["op"] == name or any(has_op(c[k], name) for k in ("a", "b") if isinstance(c.get(k), dict) and "op" in c[k])


def op_value(scn, op):
    """the value an operation is about: BuildVal sessions check op.val, others the session value"""
    for o in scn["plan"]:
        if o.get("a") == "BuildVal":
            return o["val"]
    return scn["val"]


def any_leaf(pred):
    def f(M, scn, op, ev):
        return any(pred(t, v) for t, v in leaves(M, {"k": "REF", "n": scn["ty"]}, op_value(scn, op)))
    return f


def any_type(pred):
    def f(M, scn, op, ev):
        return any(pred(M, t) for t in types_in(M, {"k": "REF", "n": scn["ty"]}))
    return f


def _bits_named_bit_treatment(t, v):
    if t["k"] != "BITS":
        return False
    e = eff_simple(t["size"])
    n = v["n"]
    trailing_zero = n > 0 and not (v["o"][-1] >> ((8 - n % 8) % 8)) & 1
    short = e is not None and e[0] not in (None, "?") and n < e[0]
    return trailing_zero or short


def _int_semi_constrained(t, v):
    if t["k"] != "INTEGER":
        return False
    e = eff_simple(t["c"])
    return e is not None and e[0] not in (None, "?") and e[1] is None and not e[2]


def _int_constrained_open_ended(t, v):
    """a value constraint whose hull is open on at least one side (lb..MAX, MIN..-5 | 5..MAX)"""
    if t["k"] != "INTEGER" or t["c"]["op"] == "none" or has_op(t["c"], "ext"):
        return False
    h = hull(t["c"])
    return h is None or None in h


def _constraint_has_allexcept(M, t):
    return any(isinstance(t.get(key), dict) and "op" in t[key] and has_op(t[key], "allexcept") for key in ("c", "size"))


def _constraint_has_except(M, t):
    for key in ("c", "size"):
        if isinstance(t.get(key), dict) and "op" in t[key] and (has_op(t[key], "except") or has_op(t[key], "allexcept")):
            return True
    return False


def _int_unsigned_ge_2p63(t, v):
    return t["k"] == "INTEGER" and big_to_int(v) >= 2 ** 63


def _int_range_needs_64_bits(t, v):
    if t["k"] != "INTEGER":
        return False
    e = eff_simple(t["c"])
    return e is not None and None not in e[:2] and "?" not in e[:2] and e[1] - e[0] >= 2 ** 32


def _real_mantissa_leading_zero(t, v):
    if t["k"] != "REAL":
        return False
    bits = int.from_bytes(bytes(v), "big")
    exp = (bits >> 52) & 0x7FF
    frac = bits & ((1 << 52) - 1)
    if exp == 0x7FF or (exp == 0 and frac == 0):
        return False
    m = frac | (1 << 52) if exp else frac
    while m % 2 == 0:
        m //= 2
    return m.bit_length() % 8 == 0 or exp == 0       # top bit of the leading octet set / subnormal


def _real_subnormal(t, v):
    if t["k"] != "REAL":
        return False
    bits = int.from_bytes(bytes(v), "big")
    return (bits >> 52) & 0x7FF == 0 and bits & ((1 << 52) - 1) != 0


def _real_bxer_lossy(t, v):
    if t["k"] != "REAL":
        return False
    import struct
    d = struct.unpack(">d", bytes(v))[0]
    if d != d or d in (float("inf"), float("-inf")):
        return False
    return float("%.15f" % d) != d


def _time_type(t, v):
    return t["k"] == "STRING" and t["st"] in ("UTCTime", "GeneralizedTime")


def _utctime_noncanonical(t, v):
    # not YYMMDDHHMMSSZ (X.690 11.8)
    return t["k"] == "STRING" and t.get("st") == "UTCTime" and not (len(v) == 13 and v[-1] == 90)


def _numeric_string(t, v):
    return t["k"] == "STRING" and t["st"] == "Numeric" and not t["alpha"]


def _string_out_of_root(t, v):
    if t["k"] != "STRING":
        return False
    e = eff_simple(t["size"])
    return e is not None and e[2] and "?" not in e[:2] and not ((e[0] or 0) <= len(v) and (e[1] is None or len(v) <= e[1]))


def _has_set(M, t):
    return t["k"] == "SET"


def _has_open(M, t):
    return t["k"] == "OPEN"


def _has_oid_ioc(M, t):
    return t["k"] == "OPEN" and bool(t["comps"][0].get("oid"))


def _has_optional_open(M, t):
    return t["k"] == "SEQUENCE" and bool(t.get("ioc")) and t["comps"][1]["o"] == "O"


def _tag_ge_2p30(M, t):
    return t["k"] == "TAGGED" and t["num"] >= 2 ** 30


def _tagged_choice_ref(M, t):
    return t["k"] == "TAGGED" and t["t"]["k"] == "REF" and M.deref(t["t"])["k"] == "CHOICE"


UNIV = {"BOOLEAN": 1, "INTEGER": 2, "BITS": 3, "OCTETS": 4, "NULL": 5, "OID": 6, "REAL": 9, "ENUM": 10, "RELOID": 13,
        "SEQUENCE": 16, "SEQOF": 16, "SET": 17, "SETOF": 17}
USTR = {"UTF8": 12, "Numeric": 18, "Printable": 19, "IA5": 22, "UTCTime": 23, "GeneralizedTime": 24, "Visible": 26,
        "Universal": 28, "BMP": 30}


def outer_tag(M, t, automatic_index=None):
    """(class rank, number) of a type's outermost tag, None for an untagged CHOICE"""
    while t["k"] == "REF":
        t = M.env[t["n"]]
    if t["k"] == "TAGGED":
        return ("UACP".index(t["cl"]), t["num"])
    if t["k"] == "CHOICE":
        return None
    if t["k"] == "STRING":
        return (0, USTR[t["st"]])
    return (0, UNIV[t["k"]])


def _choice_noninvolutive_order(M, t):
    if t["k"] != "CHOICE":
        return False
    auto = M.mod["tagging"] == "AUTOMATIC" and not any(c["t"]["k"] == "TAGGED" for c in t["comps"])
    if auto:
        return False
    tags = [outer_tag(M, c["t"]) for c in t["comps"]]
    if any(x is None for x in tags):
        return False
    order = sorted(range(len(tags)), key=lambda i: tags[i])
    return any(order[order[i]] != i for i in range(len(order)))


def _has_retagged_string(M, t):
    if t["k"] == "STRING":
        return True
    return t["k"] == "TAGGED" and M.resolve(t)["k"] in ("OCTETS", "BITS", "STRING")


def _has_explicit_tag(M, t):
    tagging = M.mod["tagging"]
    if t["k"] == "TAGGED":
        if t["mode"] == "E" or (t["mode"] == "D" and tagging == "EXPLICIT") or M.deref(t["t"])["k"] == "CHOICE":
            return True
    if tagging == "AUTOMATIC" and t["k"] in ("SEQUENCE", "SET", "CHOICE"):
        return any(M.deref(c["t"])["k"] in ("CHOICE", "OPEN") for c in M.comps(t))
    return False


def _has_boolean_default_true(M, t):
    return t["k"] in ("SEQUENCE", "SET") and any(c["o"] == "D" and M.resolve(c["t"])["k"] == "BOOLEAN" and c["d"] is True
                                                  for c in M.comps(t))


def _bits_partial_octet(t, v):
    return t["k"] == "BITS" and v["n"] % 8 != 0


def _setof_needs_sorting(t, v):
    return t["k"] == "SETOF" and len(v) >= 2 and any(e != v[0] for e in v)


def _set_has_default(M, t):
    return t["k"] == "SET" and any(c["o"] == "D" for c in M.comps(t))


def _has_default_in_additions(M, t):
    return t["k"] in ("SEQUENCE", "SET") and any(c["o"] == "D" for c in t["adds"])


def _int_ext_additions(M, t):
    for key in ("c", "size"):
        c = t.get(key)
        if isinstance(c, dict) and c.get("op") == "ext" and c["b"]["op"] != "none":
            return True
    return False


def _set_default_explicit(t, v):
    """a SET value that stores a component equal to its DEFAULT explicitly"""
    if t["k"] != "SET":
        return False
    return any(c["o"] == "D" and len(e) == 1 and e[0] == c["d"] for c, e in zip(list(t["comps"]) + list(t["adds"]), v))


def _bxer_trailing_lf(M, scn, op, ev):
    return ev.get("rc") == "OK" and ev.get("consumed") == ev.get("size", 0) - 1


def _int_wide(t, v):
    if t["k"] != "INTEGER":
        return False
    e = hull(t["c"])
    return e is not None and any(b is not None and not -2 ** 31 <= b < 2 ** 31 for b in e)


def _int_ulong32_above(t, v):
    if t["k"] != "INTEGER":
        return False
    e = eff_simple(t["c"])
    return e is not None and e[0] not in (None, "?") and e[0] >= 0 and e[1] not in (None, "?") and 2 ** 31 <= e[1] < 2 ** 32 \
        and big_to_int(v) > e[1]


def _toplevel_listof_size_violated(M, scn, op, ev):
    t = M.resolve({"k": "REF", "n": scn["ty"]})
    if t["k"] not in ("SEQOF", "SETOF"):
        return False
    v = op_value(scn, op)
    return t["size"]["op"] != "none" and not sat(t["size"], len(v))


def _real_subnormal_any(M, scn, op, ev):
    """the session value, a built value or the value a decoder reported contains a subnormal REAL"""
    ty = {"k": "REF", "n": scn["ty"]}
    cands = [op_value(scn, op)]
    if isinstance(ev, dict) and ev.get("wf") and "val" in ev:
        cands.append(ev["val"])
    for o in scn["plan"]:
        pass
    for v in cands:
        try:
            if any(_real_subnormal(t, x) for t, x in leaves(M, ty, v)):
                return True
        except Exception:
            pass
    return False


def _int_under_wide_types_option(M, scn, op, ev):
    wide = any("-fwide-types" in str(o.get("style", "")) for o in scn["plan"]) or "-fwide-types" in scn.get("_flags", ())
    return wide and any(t["k"] in ("INTEGER", "ENUM") for t, v in leaves(M, {"k": "REF", "n": scn["ty"]}, scn["val"]))


def _explicit_tag_and_indef_stream(M, scn, op, ev):
    """the type has an EXPLICIT tag somewhere and the octets given to the decoder use the indefinite form"""
    b = op.get("bytes")
    if b is None:
        for o in scn["plan"]:
            if o.get("a") == "StartDecode":
                b = o.get("bytes")
    if not b or not any((b[i] & 0x20) and b[i + 1] == 0x80 for i in range(len(b) - 1)):
        return False
    return any(_has_explicit_tag(M, t) for t in types_in(M, {"k": "REF", "n": scn["ty"]}))


PREDS = {
    "explicit_tag_and_indef_stream": _explicit_tag_and_indef_stream,
    "int_under_wide_types_option": _int_under_wide_types_option,
    "real_subnormal_any": _real_subnormal_any,
    "int_ulong32_above": any_leaf(_int_ulong32_above),
    "toplevel_listof_size_violated": _toplevel_listof_size_violated,
    "bxer_trailing_lf": _bxer_trailing_lf,
    "int_wide": any_leaf(_int_wide),
    "bits_named_bit_treatment": any_leaf(_bits_named_bit_treatment),
    "int_semi_constrained": any_leaf(_int_semi_constrained),
    "int_constrained_open_ended": any_leaf(_int_constrained_open_ended),
    "constraint_has_except": any_type(_constraint_has_except),
    "constraint_has_allexcept": any_type(_constraint_has_allexcept),
    "int_unsigned_ge_2p63": any_leaf(_int_unsigned_ge_2p63),
    "int_range_needs_64_bits": any_leaf(_int_range_needs_64_bits),
    "real_mantissa_leading_zero": any_leaf(_real_mantissa_leading_zero),
    "real_subnormal": any_leaf(_real_subnormal),
    "time_type": any_leaf(_time_type),
    # the session value (not the structure the op works on: a canonical twin of it is encoded differently too)
    "utctime_noncanonical": lambda M, scn, op, ev: any(_utctime_noncanonical(t, v) for t, v in leaves(M, {"k": "REF", "n": scn["ty"]}, scn["val"])),
    "real_bxer_lossy": any_leaf(_real_bxer_lossy),
    "numeric_string": any_leaf(_numeric_string),
    "string_out_of_root": any_leaf(_string_out_of_root),
    "has_set": any_type(_has_set),
    "has_open": any_type(_has_open),
    "has_optional_open": any_type(_has_optional_open),
    "has_oid_ioc": any_type(_has_oid_ioc),
    "tag_ge_2p30": any_type(_tag_ge_2p30),
    "tagged_choice_ref": any_type(_tagged_choice_ref),
    "has_retagged_string": any_type(_has_retagged_string),
    "has_explicit_tag": any_type(_has_explicit_tag),
    "has_boolean_default_true": any_type(_has_boolean_default_true),
    "int_ext_additions": any_type(_int_ext_additions),
    "has_default_in_additions": any_type(_has_default_in_additions),
    "bits_partial_octet": any_leaf(_bits_partial_octet),
    "setof_needs_sorting": any_leaf(_setof_needs_sorting),
    "set_default_explicit_any": any_type(_set_has_default),
    "choice_noninvolutive_order": any_type(_choice_noninvolutive_order),
    "set_default_explicit": any_leaf(_set_default_explicit),
}


# ---- predicates on helper calls (C16, C17): f(call, event) ----------------------------------
def _h_real_leading_zero(c, ev):
    return _real_mantissa_leading_zero({"k": "REAL"}, c["d"])


def _h_real_subnormal(c, ev):
    return _real_subnormal({"k": "REAL"}, c["d"])


def _h_unsigned_ge_2p63(c, ev):
    return big_to_int(c["x"]) >= 2 ** 63


def _h_negative_contents(c, ev):
    return len(c["o"]) > 0 and c["o"][0] >= 128


HPREDS = {"h_unsigned_ge_2p63": _h_unsigned_ge_2p63, "h_negative_contents": _h_negative_contents,"real_mantissa_leading_zero": _h_real_leading_zero, "real_subnormal": _h_real_subnormal}


# ---- predicates on compiler scenarios (C09-C13): f(scenario, event) ----------------------------
MPREDS = {"opts_fno_constraints": lambda run, evs: "-fno-constraints" in run.get("opts", []),
          # illegal only because an OPTIONAL run of the root continues into the extension additions
          # illegal only because a component that refers to a (non-CHOICE) type by name clashes with an untagged CHOICE
          "illegal_only_via_alias": lambda scn, ev: (not scn.get("legal")) and bool(scn.get("legal_noalias")) and not scn.get("legal_split"),
          "illegal_only_across_marker": lambda scn, ev: (not scn.get("legal")) and bool(scn.get("legal_split"))}
