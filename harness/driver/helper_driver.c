/*
 * Driver for the value-conversion helper APIs (C16, C17): one call scenario per script line,
 * one JSON event per call.  Arguments and results are passed as raw octets / decimal text;
 * nothing here interprets an encoding.
 */
#define _GNU_SOURCE
#include <stdio.h>
#include <stdlib.h>
#include <string.h>
#include <errno.h>
#include <ctype.h>
#include <signal.h>
#include <unistd.h>
#include <time.h>
#include <inttypes.h>

#include <asn_application.h>
#include <asn_internal.h>
#include <INTEGER.h>
#include <REAL.h>
#include <OBJECT_IDENTIFIER.h>
#include <RELATIVE-OID.h>
#include <GeneralizedTime.h>
#include <UTCTime.h>

static FILE *out;
static long sid; static int stepno;
static void put_hex(const uint8_t *b, size_t n) { size_t i; fputc('"', out); for(i = 0; i < n; i++) fprintf(out, "%02x", b[i]); fputc('"', out); }
static int hexval(int c) { return isdigit(c) ? c - '0' : (tolower(c) - 'a' + 10); }
static uint8_t *parse_hex(const char *h, size_t *n) {
    size_t len = strlen(h) / 2, i; uint8_t *b = malloc(len + 1);
    for(i = 0; i < len; i++) b[i] = (uint8_t)(hexval(h[2*i]) * 16 + hexval(h[2*i+1]));
    b[len] = 0; *n = len; return b;
}
static void on_fatal(int sig) {
    char b[128]; int n = snprintf(b, sizeof b, "{\"id\":%ld,\"i\":%d,\"a\":\"%s\",\"sig\":%d}\n", sid, stepno, sig == SIGALRM ? "Timeout" : "Crash", sig);
    fflush(out); if(write(fileno(out), b, n) < 0) {} _exit(70);
}
static const char *strtox_name(enum asn_strtox_result_e r) {
    switch(r) { case ASN_STRTOX_OK: return "OK"; case ASN_STRTOX_ERROR_RANGE: return "RANGE"; case ASN_STRTOX_ERROR_INVAL: return "INVAL";
                case ASN_STRTOX_EXPECT_MORE: return "MORE"; case ASN_STRTOX_EXTRA_DATA: return "EXTRA"; } return "?";
}

int main(int argc, char **argv) {
    FILE *in; char *line = NULL; size_t cap = 0; ssize_t len;
    if(argc < 3) return 2;
    in = fopen(argv[1], "r"); out = fopen(argv[2], "w");
    if(!in || !out) return 2;
    signal(SIGSEGV, on_fatal); signal(SIGABRT, on_fatal); signal(SIGBUS, on_fatal); signal(SIGFPE, on_fatal); signal(SIGALRM, on_fatal);
    while((len = getline(&line, &cap, in)) > 0) {
        char *op, *ids, *save = NULL;
        if(line[len-1] == '\n') line[--len] = 0;
        op = strtok_r(line, " ", &save); ids = strtok_r(NULL, " ", &save);
        if(!op || !ids) continue;
        sid = atol(ids);
        if(!strcmp(op, "oidapi")) {
            /* a script of calls on ONE object: oidapi <id> <oid|roid> set:1.2.3 load:2b06 get:3 ...  ('-' = empty) */
            char *kind = strtok_r(NULL, " ", &save), *tok; int roid = kind && !strcmp(kind, "roid"), step = 0;
            OBJECT_IDENTIFIER_t st; memset(&st, 0, sizeof st);
            fprintf(out, "{\"id\":%ld,\"a\":\"Begin\"}\n", sid); fflush(out);
            while((tok = strtok_r(NULL, " ", &save))) {
                char *arg = strchr(tok, ':'); asn_oid_arc_t arcs[64], backa[70]; size_t na = 0, i; long ret = 0; int e = 0, canary = 1; long slots = -1;
                if(!arg) break;
                *arg++ = 0; step++; stepno = step;
                alarm(10);
                errno = 0;
                if(!strcmp(tok, "set")) {
                    char *s;
                    if(strcmp(arg, "-")) for(s = arg; *s && na < 64; ) { arcs[na++] = (asn_oid_arc_t)strtoumax(s, &s, 10); if(*s == '.') s++; }
                    ret = roid ? RELATIVE_OID_set_arcs((RELATIVE_OID_t *)&st, arcs, na) : OBJECT_IDENTIFIER_set_arcs(&st, arcs, na);
                    e = errno;
                } else if(!strcmp(tok, "load")) {
                    size_t n = 0; uint8_t *b = parse_hex(strcmp(arg, "-") ? arg : "", &n);
                    free(st.buf); st.buf = b; st.size = n;
                } else if(!strcmp(tok, "get")) {
                    slots = atol(arg);
                    memset(backa, 0xa5, sizeof backa);
                    ret = roid ? RELATIVE_OID_get_arcs((RELATIVE_OID_t *)&st, backa, (size_t)slots) : OBJECT_IDENTIFIER_get_arcs(&st, backa, (size_t)slots);
                    e = errno;
                    { unsigned char *p = (unsigned char *)&backa[slots < 64 ? slots : 64]; size_t k; for(k = 0; k < sizeof(asn_oid_arc_t) * 4; k++) if(p[k] != 0xa5) canary = 0; }
                }
                fprintf(out, "{\"id\":%ld,\"i\":%d,\"a\":\"Call\",\"sop\":\"%s\",\"ret\":%ld,\"errno\":%d,\"isset\":%s,\"octets\":", sid, step, tok, ret, ret < 0 ? e : 0, st.buf ? "true" : "false");
                put_hex(st.buf, st.buf ? st.size : 0);
                fputs(",\"back\":[", out);
                for(i = 0; slots >= 0 && ret > 0 && i < (size_t)ret && i < (size_t)slots && i < 64; i++) fprintf(out, "%s\"%" PRIuMAX "\"", i ? "," : "", (uintmax_t)backa[i]);
                fprintf(out, "],\"canary\":%s}\n", canary ? "true" : "false"); fflush(out);
                alarm(0);
            }
            free(st.buf);
            fprintf(out, "{\"id\":%ld,\"a\":\"End\"}\n", sid); fflush(out);
            stepno = 0;
            continue;
        }
        alarm(10);
        fprintf(out, "{\"id\":%ld,\"a\":\"Call\",\"op\":\"%s\"", sid, op);
        if(!strcmp(op, "script")) {
            /* conversions into ONE object, one after the other: script <id> <int|real> long:5 umax:7 ... | d:<hex> ... */
            char *kind = strtok_r(NULL, " ", &save), *tok; int first = 1, isreal = kind && !strcmp(kind, "real");
            INTEGER_t ist; REAL_t rst; memset(&ist, 0, sizeof ist); memset(&rst, 0, sizeof rst);
            fputs(",\"steps\":[", out);
            while((tok = strtok_r(NULL, " ", &save))) {
                char *arg = strchr(tok, ':'); int ret = 0, bret = 0;
                if(!arg) break;
                *arg++ = 0;
                fprintf(out, "%s{", first ? "" : ","); first = 0;
                if(isreal) {
                    uint64_t bits = strtoull(arg, 0, 16), bb; double d, back = 0;
                    memcpy(&d, &bits, 8);
                    ret = asn_double2REAL(&rst, d);
                    bret = ret ? -1 : asn_REAL2double(&rst, &back);
                    if(back != back) bb = 0x7ff8000000000000ULL; else memcpy(&bb, &back, 8);
                    fprintf(out, "\"op\":\"d2r\",\"back\":\"%016llx\",\"ret\":%d,\"back_ret\":%d,\"octets\":", (unsigned long long)bb, ret, bret); put_hex(rst.buf, rst.buf ? rst.size : 0);
                } else {
                    fputs("\"op\":\"int2c\"", out);
                    if(!strcmp(tok, "long")) { long v = strtol(arg, 0, 10), b = 0; ret = asn_long2INTEGER(&ist, v); bret = asn_INTEGER2long(&ist, &b); fprintf(out, ",\"back\":\"%ld\"", b); }
                    else if(!strcmp(tok, "ulong")) { unsigned long v = strtoul(arg, 0, 10), b = 0; ret = asn_ulong2INTEGER(&ist, v); bret = asn_INTEGER2ulong(&ist, &b); fprintf(out, ",\"back\":\"%lu\"", b); }
                    else if(!strcmp(tok, "imax")) { intmax_t v = strtoimax(arg, 0, 10), b = 0; ret = asn_imax2INTEGER(&ist, v); bret = asn_INTEGER2imax(&ist, &b); fprintf(out, ",\"back\":\"%" PRIdMAX "\"", b); }
                    else { uintmax_t v = strtoumax(arg, 0, 10), b = 0; ret = asn_umax2INTEGER(&ist, v); bret = asn_INTEGER2umax(&ist, &b); fprintf(out, ",\"back\":\"%" PRIuMAX "\"", b); }
                    fprintf(out, ",\"ret\":%d,\"back_ret\":%d,\"octets\":", ret, bret); put_hex(ist.buf, ist.buf ? ist.size : 0);
                }
                fputs("}", out);
            }
            fputs("]", out);
            free(ist.buf); free(rst.buf);
        } else if(!strcmp(op, "int2c")) {
            char *ty = strtok_r(NULL, " ", &save), *dec = strtok_r(NULL, " ", &save);
            INTEGER_t st; int ret, bret; memset(&st, 0, sizeof st);
            if(!strcmp(ty, "long")) { long v = strtol(dec, 0, 10), b = 0; ret = asn_long2INTEGER(&st, v); bret = asn_INTEGER2long(&st, &b); fprintf(out, ",\"back\":\"%ld\"", b); }
            else if(!strcmp(ty, "ulong")) { unsigned long v = strtoul(dec, 0, 10), b = 0; ret = asn_ulong2INTEGER(&st, v); bret = asn_INTEGER2ulong(&st, &b); fprintf(out, ",\"back\":\"%lu\"", b); }
            else if(!strcmp(ty, "imax")) { intmax_t v = strtoimax(dec, 0, 10), b = 0; ret = asn_imax2INTEGER(&st, v); bret = asn_INTEGER2imax(&st, &b); fprintf(out, ",\"back\":\"%" PRIdMAX "\"", b); }
            else { uintmax_t v = strtoumax(dec, 0, 10), b = 0; ret = asn_umax2INTEGER(&st, v); bret = asn_INTEGER2umax(&st, &b); fprintf(out, ",\"back\":\"%" PRIuMAX "\"", b); }
            fprintf(out, ",\"ret\":%d,\"back_ret\":%d,\"octets\":", ret, bret); put_hex(st.buf, st.buf ? st.size : 0);
            free(st.buf);
        } else if(!strcmp(op, "c2int")) {
            char *ty = strtok_r(NULL, " ", &save), *hex = strtok_r(NULL, " ", &save);
            INTEGER_t st; int ret, e; memset(&st, 0, sizeof st);
            st.buf = parse_hex(hex ? hex : "", &st.size);
            errno = 0;
            if(!strcmp(ty, "long")) { long b = 0; ret = asn_INTEGER2long(&st, &b); e = errno; fprintf(out, ",\"v\":\"%ld\"", b); }
            else if(!strcmp(ty, "ulong")) { unsigned long b = 0; ret = asn_INTEGER2ulong(&st, &b); e = errno; fprintf(out, ",\"v\":\"%lu\"", b); }
            else if(!strcmp(ty, "imax")) { intmax_t b = 0; ret = asn_INTEGER2imax(&st, &b); e = errno; fprintf(out, ",\"v\":\"%" PRIdMAX "\"", b); }
            else { uintmax_t b = 0; ret = asn_INTEGER2umax(&st, &b); e = errno; fprintf(out, ",\"v\":\"%" PRIuMAX "\"", b); }
            fprintf(out, ",\"ret\":%d,\"errno\":%d", ret, ret ? e : 0);
            free(st.buf);
        } else if(!strcmp(op, "d2r")) {
            char *hex = strtok_r(NULL, " ", &save); uint64_t bits = strtoull(hex, 0, 16), bb; double d, back = 0; REAL_t st; int ret, bret;
            memset(&st, 0, sizeof st); memcpy(&d, &bits, 8);
            ret = asn_double2REAL(&st, d);
            bret = ret ? -1 : asn_REAL2double(&st, &back);
            if(back != back) bb = 0x7ff8000000000000ULL; else memcpy(&bb, &back, 8);
            fprintf(out, ",\"ret\":%d,\"back_ret\":%d,\"back\":\"%016llx\",\"octets\":", ret, bret, (unsigned long long)bb); put_hex(st.buf, st.buf ? st.size : 0);
            free(st.buf);
        } else if(!strcmp(op, "num")) {
            char *ty = strtok_r(NULL, " ", &save), *txt = strtok_r(NULL, " ", &save); const char *end = txt + strlen(txt); enum asn_strtox_result_e r;
            if(!strcmp(ty, "long")) { long v = 0; r = asn_strtol_lim(txt, &end, &v); fprintf(out, ",\"v\":\"%ld\"", v); }
            else if(!strcmp(ty, "ulong")) { unsigned long v = 0; r = asn_strtoul_lim(txt, &end, &v); fprintf(out, ",\"v\":\"%lu\"", v); }
            else if(!strcmp(ty, "imax")) { intmax_t v = 0; r = asn_strtoimax_lim(txt, &end, &v); fprintf(out, ",\"v\":\"%" PRIdMAX "\"", v); }
            else { uintmax_t v = 0; r = asn_strtoumax_lim(txt, &end, &v); fprintf(out, ",\"v\":\"%" PRIuMAX "\"", v); }
            fprintf(out, ",\"r\":\"%s\"", strtox_name(r));
        } else if(!strcmp(op, "setarcs") || !strcmp(op, "getarcs") || !strcmp(op, "parse")) {
            asn_oid_arc_t arcs[64], backa[70]; size_t na = 0, i; long slots = 64; char *txt, *s; OBJECT_IDENTIFIER_t st; int ret = 0; ssize_t cnt = -9;
            memset(&st, 0, sizeof st);
            if(!strcmp(op, "getarcs")) slots = atol(strtok_r(NULL, " ", &save));
            txt = strtok_r(NULL, " ", &save);
            if(!strcmp(op, "parse")) {
                const char *pend = 0;
                memset(backa, 0xa5, sizeof backa);
                cnt = OBJECT_IDENTIFIER_parse_arcs(txt, (ssize_t)strlen(txt), backa, 64, &pend);
                fprintf(out, ",\"count\":%zd,\"back\":[", cnt);
                for(i = 0; cnt > 0 && i < (size_t)cnt && i < 64; i++) fprintf(out, "%s\"%" PRIuMAX "\"", i ? "," : "", (uintmax_t)backa[i]);
                fputs("]", out);
            } else {
                for(s = txt; *s && na < 64; ) { arcs[na++] = (asn_oid_arc_t)strtoumax(s, &s, 10); if(*s == '.') s++; }
                ret = OBJECT_IDENTIFIER_set_arcs(&st, arcs, na);
                memset(backa, 0xa5, sizeof backa);
                if(ret == 0) cnt = OBJECT_IDENTIFIER_get_arcs(&st, backa, (size_t)slots);
                fprintf(out, ",\"ret\":%d,\"count\":%zd,\"octets\":", ret, cnt); put_hex(st.buf, st.buf ? st.size : 0);
                fputs(",\"back\":[", out);
                for(i = 0; cnt > 0 && i < (size_t)cnt && i < (size_t)slots; i++) fprintf(out, "%s\"%" PRIuMAX "\"", i ? "," : "", (uintmax_t)backa[i]);
                fputs("]", out);
                { int ok = 1; unsigned char *p = (unsigned char *)&backa[slots < 64 ? slots : 64]; size_t k; for(k = 0; k < sizeof(asn_oid_arc_t) * 4; k++) if(p[k] != 0xa5) ok = 0;
                  fprintf(out, ",\"canary\":%s", ok ? "true" : "false"); }
                free(st.buf);
            }
        } else if(!strcmp(op, "time")) {
            long days = atol(strtok_r(NULL, " ", &save)), sod = atol(strtok_r(NULL, " ", &save)); char *frac = strtok_r(NULL, " ", &save), *tz = strtok_r(NULL, " ", &save);
            time_t t = (time_t)days * 86400 + sod, tb; struct tm tm, tm2; GeneralizedTime_t *gt; UTCTime_t *ut;
            int fd = strcmp(frac, "-") ? (int)strlen(frac) : 0, fv = fd ? atoi(frac) : 0, bfv = -1, bfd = -1;
            setenv("TZ", tz, 1); tzset();
            localtime_r(&t, &tm);
            gt = fd ? asn_time2GT_frac(0, &tm, fv, fd, 1) : asn_time2GT(0, &tm, 1);
            fputs(",\"gt\":", out); if(gt) put_hex(gt->buf, gt->size); else fputs("\"\"", out);
            errno = 0;
            tb = gt ? (fd ? asn_GT2time_frac(gt, &bfv, &bfd, &tm2, 1) : asn_GT2time(gt, &tm2, 1)) : -1;
            fprintf(out, ",\"gt_back_ok\":%s", (gt && tb == t && (!fd || (bfv == fv && bfd == fd))) ? "true" : "false");
            ut = asn_time2UT(0, &tm, 1);
            fputs(",\"ut\":", out); if(ut) put_hex(ut->buf, ut->size); else fputs("\"\"", out);
            tb = ut ? asn_UT2time(ut, &tm2, 1) : -1;
            fprintf(out, ",\"ut_back_ok\":%s", (ut && tb == t) ? "true" : "false");
            if(gt) ASN_STRUCT_FREE(asn_DEF_GeneralizedTime, gt);
            if(ut) ASN_STRUCT_FREE(asn_DEF_UTCTime, ut);
        }
        fputs("}\n", out); fflush(out);
        alarm(0);
    }
    fclose(out);
    return 0;
}
