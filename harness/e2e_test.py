import sys, time, json
sys.path.insert(0, '/verif/harness')
from lib import *
t0=time.time()
modidx = int(sys.argv[1]) if len(sys.argv)>1 else 1
plan = sys.argv[2] if len(sys.argv)>2 else "rt"
mod, scns, st = generate("MC_Gen", ["Mod <- TheMod", "ModIdx = %d"%modidx, 'PlanSet = "%s"'%plan, "Depth = 2"], ["RoundTrip","WireCanonical","Export"])
print("gen", len(scns), st, time.time()-t0)
M = Module(mod)
open('/tmp/mod.asn1','w').write(M.text())
b = build_module(M)
print("build", b.ok, b.asn1c_rc, b.err[:2000], b.asn1c_out[-1500:] if not b.ok else "", time.time()-t0)
if not b.ok: sys.exit(1)
evs = run_driver(b, M, scns)
print("events", len(evs), time.time()-t0)
cev = convert_events(M, scns, evs)
json.dump(cev[:50], open('/tmp/ev_sample.json','w'), indent=0)
mism, tot = judge("Trace_Codec", mod, scns, cev, invariants=["RoundTrip"])
print("judge", tot, len(mism), time.time()-t0)
byid={s['id']:s for s in scns}
from collections import Counter
c=Counter((byid[m['id']]['ty'], m['reason'], byid[m['id']]['plan'][m['i']-1].get('syn','')) for m in mism)
for k,v in sorted(c.items()): print(v,k)
json.dump([dict(m, scn=byid[m['id']], evs=[e for e in cev if e['id']==m['id']]) for m in mism[:300]], open('/tmp/mism.json','w'))
