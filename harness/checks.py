"""The checks, one per property.  Every check: TLC generator run (model-level invariants +
export of the explored behaviours) -> replay on code built from /repo's working tree ->
TLC trace validation (judge) -> evidence."""
import sys, os, json, time, argparse, traceback, random

import lib
from lib import Infra, log
from asn1gen import Module
import findings as F

ASSUME_CODEC = [
    "the TLA+ transcription of X.680/X.690/X.691/X.696 in /verif/spec is the reference (no standard text offline; cross-checked with known-answer vectors)",
    "TLC, the CommunityModules Json module and the python glue that renders type terms to ASN.1 text",
    "the driver's build/project pair (descriptor walking, no codec involved); checked on every session by the Build event",
    "values are boundary-biased finite sets, not all values; types are the universe of spec/Universe.tla",
]


gen_workers = 1


class Result:
    def __init__(self, prop):
        self.prop = prop
        self.violations = []      # (sig, replay payload)
        self.known = {}           # finding id -> count
        self.states = 0
        self.transitions = 0
        self.sessions = 0
        self.events = 0
        self.distinct = set()
        self.samples = []
        self.notes = {}


def expand(mism):
    """one entry per violated clause"""
    out = []
    for m in mism:
        for r in m.get("reasons", [m.get("reason")]):
            out.append(dict(m, reason=r))
    return out


def signature(M, scn, m):
    op = scn["plan"][m["i"] - 1] if 0 < m["i"] <= len(scn["plan"]) else {"a": "?"}
    syn = op.get("syn")
    if syn is None and op.get("a") == "DecodeCall":
        for o in reversed(scn["plan"][:m["i"] - 1]):
            if o.get("a") == "StartDecode":
                syn = o.get("syn")
                break
    sig = {"module": M.name, "ty": scn["ty"], "a": op.get("a"), "syn": syn, "reason": m["reason"]}
    if "style" in op:
        sig["style"] = op["style"]
    else:
        for o in scn["plan"]:
            if "style" in o:
                sig["style"] = o["style"]
                break
    return sig, op


def classify(prop, M, scn, m, known_list, events=()):
    sig, op = signature(M, scn, m)
    ev = next((e for e in events if e["i"] == m["i"]), {})
    for f in known_list:
        alts = f["match"] if isinstance(f["match"], list) else [f["match"]]
        for alt in alts:
            mt = dict(alt)
            pred = mt.pop("pred", None)
            if not lib.finding_matches({"match": mt}, sig):
                continue
            if pred and not F.PREDS[pred](M, scn, op, ev):
                continue
            return sig, f
    return sig, None


def run_sessions(res, M, mod_json, scns, trace_module, san="plain", flags=(), invariants=("RoundTrip",), known=(), label="",
                 constants=("Mod <- TheMod", "ByteExact = TRUE")):
    """replay + judge one batch of sessions.  An event whose deviation is a recorded finding is
    marked kf (the trace specification then takes the spec's step and goes on judging the rest
    of the session); any other rejected session is re-executed once before it is reported."""
    b = lib.build_module(M, flags=flags, san=san)
    if not b.ok:
        raise Infra("generated code for %s does not build (asn1c rc=%s): %s %s" % (M.name, b.asn1c_rc, b.err, b.asn1c_out[-800:]))
    for s in scns:
        s["_flags"] = list(flags)        # (the predicates of recorded findings may depend on the build options)
    evs = lib.convert_events(M, scns, lib.run_driver(b, M, scns))
    byid = {s["id"]: s for s in scns}
    evbyid = {}
    for e in evs:
        evbyid.setdefault(e["id"], []).append(e)
    todo = scns
    fresh = []
    hit = {}
    first = True
    for rnd in range(8):
        sub_evs = [e for s in todo for e in evbyid.get(s["id"], [])]
        mism, tot = lib.judge(trace_module, mod_json, todo, sub_evs, constants=constants, invariants=list(invariants))
        mism = expand(mism)
        if first:
            res.states += tot["distinct"]
            res.transitions += tot["states"]
            res.sessions += len(scns)
            res.events += tot["events"]
            first = False
        redo = set()
        for m in mism:
            scn = byid[m["id"]]
            sig, f = classify(res.prop, M, scn, m, known, evbyid.get(m["id"], []))
            if f:
                hit.setdefault(f["id"], set()).add(m["id"])
                for e in evbyid[m["id"]]:
                    if e["i"] == m["i"] and e["a"] != "Session":
                        if f.get("continue"):
                            e["waive"] = sorted(set(e.get("waive", [])) | {m["reason"]})
                        else:
                            e["kf"] = "stop"
                redo.add(m["id"])
            else:
                fresh.append((m, scn, sig))
        if not redo:
            break
        todo = [s for s in todo if s["id"] in redo]
    for fid, ids in hit.items():
        res.known[fid] = res.known.get(fid, 0) + len(ids)
    if scns and len(res.samples) < 4:
        s0 = scns[len(scns) // 2]
        res.samples.append({"module": M.name, "scenario": {k: s0[k] for k in ("ty", "val", "plan")},
                            "events": evbyid.get(s0["id"], [])[:6]})
    if fresh:
        # confirm by an independent second execution of just those sessions
        ids = {m["id"] for m, _, _ in fresh}
        again = [s for s in scns if s["id"] in ids]
        evs2 = lib.convert_events(M, again, lib.run_driver(b, M, again))
        ev2 = {}
        for e in evs2:
            ev2.setdefault(e["id"], []).append(e)
        for sid, lst in ev2.items():       # carry the kf marks over
            marks = {e["i"]: e for e in evbyid.get(sid, []) if e.get("kf") or e.get("waive")}
            for e in lst:
                if e["i"] in marks and e["a"] != "Session":
                    for k in ("kf", "waive"):
                        if k in marks[e["i"]]:
                            e[k] = marks[e["i"]][k]
        mism2, _ = lib.judge(trace_module, mod_json, again, evs2, constants=constants, invariants=list(invariants))
        mism2 = expand(mism2)
        confirmed = {(m["id"], m["i"], m["reason"]) for m in mism2}
        for m, scn, sig in fresh:
            if (m["id"], m["i"], m["reason"]) in confirmed:
                res.violations.append((sig, {"property": res.prop, "signature": sig, "module": mod_json, "flags": list(flags),
                                             "san": san, "trace_module": trace_module, "constants": list(constants), "scenario": scn,
                                             "events": ev2.get(m["id"], []), "first_unexplained_op": m["i"],
                                             "module_text": M.text()}))
    return fresh


def run_sessions_events(res, M, mod_json, scns, evs, trace_module, known, constants, label=""):
    """judge already recorded events (no re-execution): used where the execution itself is the experiment (threads)"""
    byid = {s["id"]: s for s in scns}
    evbyid = {}
    for e in evs:
        evbyid.setdefault(e["id"], []).append(e)
    todo = scns
    first = True
    for rnd in range(8):
        sub = [e for s in todo for e in evbyid.get(s["id"], [])]
        mism, tot = lib.judge(trace_module, mod_json, todo, sub, constants=constants, invariants=["RoundTrip"])
        mism = expand(mism)
        if first:
            res.states += tot["distinct"]
            res.transitions += tot["states"]
            res.sessions += len(scns)
            res.events += tot["events"]
            first = False
        redo = set()
        for m in mism:
            scn = byid[m["id"]]
            sig, f = classify(res.prop, M, scn, m, known, evbyid.get(m["id"], []))
            if f:
                res.known[f["id"]] = res.known.get(f["id"], 0) + 1
                for e in evbyid[m["id"]]:
                    if e["i"] == m["i"] and e["a"] != "Session":
                        if f.get("continue"):
                            e["waive"] = sorted(set(e.get("waive", [])) | {m["reason"]})
                        else:
                            e["kf"] = "stop"
                redo.add(m["id"])
            else:
                sig["style"] = label
                res.violations.append((sig, {"property": res.prop, "signature": sig, "module": mod_json, "scenario": scn,
                                             "events": evbyid.get(m["id"], []), "first_unexplained_op": m["i"], "schedule": label}))
        if not redo:
            break
        todo = [s for s in todo if s["id"] in redo]
    if scns and len(res.samples) < 3:
        s0 = scns[len(scns) // 2]
        res.samples.append({"module": M.name, "schedule": label, "scenario": {k: s0[k] for k in ("ty", "val", "plan")}, "events": evbyid.get(s0["id"], [])[:5]})


def finish(res, tier, seed, level, t0, rule, assumptions, exhaustive=False, extra=None):
    cov = {"states": res.states, "transitions": res.transitions,
           "traces_validated_against_impl": res.sessions, "samples": res.samples or ["(none)"],
           "evaluations": res.events, "distinct_nontrivial": len(res.distinct), "rule": rule,
           "exhaustive": exhaustive, "known_findings_hit": res.known}
    cov.update(res.notes)
    cov.update(extra or {})
    if os.environ.get("VERIF_REPLAY_SIG"):
        # --replay of a non-session payload: the check was re-run; does the recorded violation come back?
        want = json.loads(os.environ["VERIF_REPLAY_SIG"])
        again = [sig for sig, _ in res.violations if sig == want]
        if again:
            print("VIOLATION property=%s replay=%s" % (res.prop, os.environ.get("VERIF_REPLAY_PATH", "?")))
            return 1
        print("replay: the recorded violation did not recur (%d other violations)" % len(res.violations))
        return 0
    lib.write_evidence(res.prop, tier, seed, level, cov, time.time() - t0, len(res.violations), assumptions)
    known_all = {f["id"]: f for f in lib.load_findings(res.prop)}
    for fid, n in sorted(res.known.items()):
        print("KNOWN-FINDING: property=%s %s (%d sessions): %s" % (res.prop, fid, n, known_all[fid]["what"]))
    if os.environ.get("VERIF_DEBUG"):
        json.dump([pl for _, pl in res.violations], open(os.path.join(lib.SCRATCH, "last-%s.json" % res.prop), "w"))
    if res.violations:
        seen = set()
        for sig, payload in res.violations:
            key = json.dumps(sig, sort_keys=True)
            if key in seen:
                continue
            seen.add(key)
            if len(seen) > 25:
                break
            name = "-".join(str(sig[k]) for k in ("module", "ty", "a", "op", "kind", "tagging", "fault", "family", "syn", "reason", "style")
                            if sig.get(k) is not None)
            payload.setdefault("tier", tier)
            path = lib.write_replay(res.prop, name.replace("/", "_"), payload)
            print("VIOLATION property=%s replay=%s" % (res.prop, path))
            log("  ", json.dumps(sig))
        return 1
    return 0


# ---- codec family -------------------------------------------------------------------------
def gen_codec(modidx, planset, depth, exact=True, extra_consts=(), maxcompose=6, xervals=2, valcap=0, maxfail=6, leafcap=0, dense=False):
    consts = ["Mod <- TheMod", "ModIdx = %d" % modidx, 'PlanSet = "%s"' % planset, "Depth = %d" % depth, "MaxCompose = %d" % maxcompose, "XerVals = %d" % xervals, "ValCap = %d" % valcap, "MaxFail = %d" % maxfail, "LeafCap = %d" % leafcap,
              "MutDense = %s" % ("TRUE" if dense else "FALSE"),
              "ByteExact = %s" % ("TRUE" if exact else "FALSE")] + list(extra_consts)
    return lib.generate("MC_Gen", consts, ["RoundTrip", "WireCanonical", "DecSound", "Export"], workers=gen_workers)


def nontrivial(M, scn):
    return (M.name, scn["ty"], json.dumps(scn["val"], sort_keys=True))


def codec_family(prop, tier, seed, planset, level="model_checking", san="plain", rule="", modules=(1, 2, 3), depth=None, exact=True,
                 valcap=0, maxfail=6, invariants=("RoundTrip",), leafcap=0, dense=False, big=False, res=None, finish_it=True, flags=()):
    t0 = time.time()
    res = res or Result(prop)
    known = lib.load_findings(prop)
    depth = depth or (2 if tier == "quick" else 3)
    if os.environ.get("VERIF_MODULES"):
        modules = tuple(int(x) for x in os.environ["VERIF_MODULES"].split(","))
    elif tier == "thorough" and big:
        modules = tuple(modules) + (4,)
    for mi in modules:
        mod, scns, st = gen_codec(mi, planset, depth, exact, valcap=valcap, maxfail=maxfail, leafcap=leafcap, dense=dense)
        res.states += st["distinct"]
        res.transitions += st["states"]
        M = Module(mod)
        for s in scns:
            res.distinct.add(nontrivial(M, s))
        run_sessions(res, M, mod, scns, "Trace_Codec", san=san, known=known, invariants=invariants, flags=flags,
                     constants=("Mod <- TheMod", "ByteExact = %s" % ("TRUE" if exact else "FALSE")))
        log("%s module %s %s%s: %d sessions, %d violations so far, %.0fs" % (prop, M.name, planset, " " + " ".join(flags) if flags else "", len(scns), len(res.violations), time.time() - t0))
    if not finish_it:
        return res
    return finish(res, tier, seed, level, t0, rule, ASSUME_CODEC,
                  exhaustive=False, extra={"exhaustive_note": "every (type, boundary value, plan) of the universe modules was enumerated by TLC and replayed"})


def check_C02(tier, seed):
    return codec_family("C02", tier, seed, "enc",
                        rule="TLC enumerates every type of spec/Universe.tla x every value of spec/Values.tla; one session = Build + one Encode per syntax; bytes compared with the TLA+ reference encoders (DER, UPER, OER); distinct = distinct (module, type, value)")


def check_C05(tier, seed):
    return codec_family("C05", tier, seed, "split" if tier == "quick" else "chunks",
                        rule="for every (type, value) of the universe and the restartable binary syntaxes (BER, OER): quick = every 2-chunk split point of the reference encoding (every proper prefix incl. the empty one), of its all-indefinite BER form, and of its XER text; thorough = every chunking of encodings up to 6 octets and octet-wise feeding of all; each decoder call is one trace event judged by Codec!DecodeCall")


def check_C03(tier, seed):
    return codec_family("C03", tier, seed, "variants",
                        rule="for every (type, value) of the universe: the BER variants of spec/Variants.tla (23 styles: long-form lengths padded by 1 / 4 / 9 octets, indefinite lengths at all / odd / even depths, constructed and nested constructed strings, reversed SET order, DEFAULT values present, TRUE = 01, unknown primitive / constructed extension additions, REAL with an even mantissa / a scaling factor / base 8 / base 16 / a length-prefixed exponent / as ISO 6093 text), BASIC-PER/OER defaults-present and 1 / 63 / 64 / 65 / 130 unknown extension additions, XER layouts (LF, CR LF TAB, comments, empty-element tags, defaults present, numeric character references); each is decoded one-shot and must give RC_OK, full length consumed, the value, and the canonical DER re-encoding")


def check_C06(tier, seed):
    return codec_family("C06", tier, seed, "reps",
                        rule="for every (type, value) of the universe and every representation change that applies to it (SET OF order, INTEGER sign-extension padding, DEFAULT materialised, unused-bit noise, non-canonical TRUE, structure decoded from a non-canonical BER variant): the representation is built (or decoded), must compare equal to the canonical structure, and each canonical encoder (DER, UPER, OER, CANONICAL-XER) must produce the octets of the canonical structure (DER/UPER/OER: the reference octets)")


def check_C08(tier, seed):
    # (module 5: the constraint expression trees: unions with gaps, intersections, exceptions, serial application, chains)
    return codec_family("C08", tier, seed, "check", exact=False, modules=(1, 2, 3, 5),
                        rule="for every (type, valid value) of the universe: the value itself and every value derived from it by violating exactly one value / SIZE / alphabet constraint at one position (every bound, both sides; first and last character; every element and component position; spec/Values.tla Corruptions); asn_check_constraints must return 0 iff Valid (Asn1Types.tla) and, on failure, a terminated message within every buffer size tried (0,1,2,16,L-1,L,L+1,L+2,256) that names a type")


def check_C07(tier, seed):
    return codec_family("C07", tier, seed, "sinks", exact=False, valcap=4 if tier == "quick" else 0, maxfail=5 if tier == "quick" else 12,
                        rule="per (type, value, syntax): asn_encode_to_new_buffer, asn_encode_to_buffer with buffer sizes {0, 1, n/2, n-1, n, n+1} (canaries around the buffer), asn_encode with a callback failing at its k-th invocation for k = 0..MaxFail; the same for structures violating one constraint and for zero-initialised structures (clean failure: -1 with an errno and no buffer, or a consistent encoding)")


def check_C14(tier, seed):
    # 16K..64K-element values: build, encode, every prefix around the fragment boundaries decoded and freed, decode, free
    res = codec_family("C14", tier, seed, "big", exact=False, san="asan", modules=(4,), finish_it=False)
    return codec_family("C14", tier, seed, "life", exact=False, san="asan", res=res, valcap=3 if tier == "quick" else 10, maxfail=3 if tier == "quick" else 12,
                        rule="per (type, value, syntax) histories: starved chunked decode then free; decode, RESET (structure must be all zero), decode into the reset structure, re-encode, free; failure of the k-th library allocation during decode / encode, for EVERY k up to the number of allocations of the undisturbed call (in-driver sweep; plus explicit histories for k = 1..MaxFail), then free; valid encodings of values the native C representation cannot hold (2^63, 2^64, ...) decoded and freed; every proper prefix of every reference encoding (for 16K..64K-element values: the prefixes around every 16K fragment boundary) decoded and freed (in-driver sweep); truncated / damaged input then free or reset + re-decode; the allocation ledger (link-time wrapped allocator) must be empty after the last free; ASan build turns double frees into Crash events")


def check_C04(tier, seed):
    # values of 16K..64K elements (fragmented length determinants, multi-chunk open types): the implementation's own
    # encoding is the wire (module VB; the reference encoders are not evaluated on them)
    res = codec_family("C04", tier, seed, "big", exact=False, san="asan", modules=(4,), finish_it=False)
    if tier == "thorough":
        # every position x nine substitutions on one module; more values per type, sparse substitutions, on the others
        res = codec_family("C04", tier, seed, "mutations", exact=False, san="asan", valcap=2, leafcap=3, dense=True, depth=2, modules=(2,),
                           res=res, finish_it=False)
    return codec_family("C04", tier, seed, "mutations", exact=False, san="asan", valcap=2 if tier == "quick" else 4,
                        leafcap=3 if tier == "quick" else 6, dense=False, depth=2, level="exploration", res=res,
                        rule="module VB: OCTET STRING / SEQUENCE OF / extension addition values of 16383..65536 elements: build, encode (DER, UPER, OER), decode the produced octets, compare, free; then, per (type, value, syntax in DER/OER/UPER/CXER): every truncation, byte substitutions {00,01,7f,80,81,ff,+1,-1,+80} at every position (first 6 / last 4 of long encodings), duplicated tail, dropped byte, appended ff*4; decode (rc in {OK,WMORE,FAIL}, consumed <= size), print, validate, re-encode, decode the re-encoding (must compare equal), free; ASan+UBSan build: any report is a Crash event that no spec action explains")


def check_C18(tier, seed):
    """open types governed by an object set: module VO of the universe (INTEGER- and OBJECT IDENTIFIER-identified sets,
    1 and 4 rows, extensible or not, built-in / defined / constructed / nested-frame row types, frames nested in a SEQUENCE
    and a SEQUENCE OF), under ASan+UBSan with the allocation ledger"""
    t0 = time.time()
    res = Result("C18")
    quick = tier == "quick"
    runs = [("rt", False, ()), ("variants", True, ()), ("split", True, ()), ("ioc", False, ()), ("mutations", False, ()), ("life", False, ()),
            ("rt", False, ("-fwide-types",)), ("ioc", False, ("-fwide-types",)), ("variants", True, ("-findirect-choice", "-fcompound-names"))]
    if not quick:
        runs += [("chunks", True, ()), ("mutations", False, ("-fwide-types",)), ("ioc", False, ("-findirect-choice", "-fcompound-names")),
                 ("life", False, ("-fwide-types",))]
    for planset, exact, flags in runs:
        codec_family("C18", tier, seed, planset, san="asan", modules=(9,) if flags else ((9, 10, 11) if planset in ("rt", "variants") else (9, 10)), exact=exact, flags=flags, res=res, finish_it=False,
                     valcap=(3 if quick else 8) if planset in ("mutations", "life") else (4 if quick and planset in ("split", "ioc") else 0),
                     leafcap=3 if quick and planset == "mutations" else 0,
                     maxfail=6 if quick else 16, dense=not quick and planset == "mutations")
    return finish(res, tier, seed, "model_checking", t0,
                  "modules VO, VP, VQ (spec/Universe.tla): frames SEQUENCE { id CLASS.&id({Set}), val CLASS.&Type({Set}{@id}) [OPTIONAL] } over six object sets (1, 3, 4 rows; INTEGER identifiers incl. negative and > 32767, OBJECT IDENTIFIER identifiers; extensible or not); for every frame type, every row and boundary values of the row type: round trip per syntax; decoding of the reference encodings (DER, 16 BER styles, UPER, OER, XER layouts) must select exactly the row paired with the identifier (value equality includes the selected row); every 2-chunk split; identifier replaced by one without a row (must not be accepted) or by another row's (if accepted, the value must be of the type paired with the decoded identifier: Asn1Types!IocConsistent), in DER / padded BER / UPER / OER / XER, then print + free, or reset + decode a valid encoding into the same structure; byte mutations and allocation-failure histories; ASan+UBSan build with the allocation ledger: every crash, sanitizer report or unreleased block is an event no spec action explains; repeated with -fwide-types and -findirect-choice -fcompound-names",
                  ASSUME_CODEC + ["the object-set universe is fixed (4 sets); generated class/object-set modules beyond it are not enumerated"])


OPTION_SETS_QUICK = [["-fwide-types"], ["-fcompound-names"], ["-findirect-choice"], ["-fno-include-deps"], ["-fincludes-quoted"],
                     ["-no-gen-PER"], ["-no-gen-OER"], ["-no-gen-PER", "-fwide-types"],
                     ["-fwide-types", "-fcompound-names", "-findirect-choice", "-fincludes-quoted"]]


def check_C13(tier, seed):
    """the reference build (no options) encodes every (type, value, syntax); every option build must produce the same
    octets, decode them to the same value, and compare equal (Codec: Adopt + canonical-encoder rule)"""
    import itertools
    t0 = time.time()
    res = Result("C13")
    # recorded deviations of an encoder from the STANDARD say nothing about two builds agreeing with each other:
    # "the octets differ" is never excused here
    known = []
    for f in lib.load_findings("C13"):
        alts = f["match"] if isinstance(f["match"], list) else [f["match"]]
        alts = [a for a in alts if not (a.get("a") == "Encode" and "bytes-differ" in (a.get("reason") if isinstance(a.get("reason"), list) else [a.get("reason")]))]
        if alts:
            known.append(dict(f, match=alts))
    opts = ["-fwide-types", "-fcompound-names", "-findirect-choice", "-fno-include-deps", "-fincludes-quoted"]
    if tier == "thorough":
        sets = [list(c) for r in range(1, len(opts) + 1) for c in itertools.combinations(opts, r)]
        modules = (2, 1, 3, 5, 9)
    else:
        sets = OPTION_SETS_QUICK
        modules = (1, 2, 9)
    consts = ("Mod <- TheMod", "ByteExact = FALSE")
    for mi in modules:
        mod, scns, st = gen_codec(mi, "enc", 2, exact=False, valcap=6 if tier == "quick" and mi != 9 else 0, leafcap=8 if tier == "quick" else 0)
        res.states += st["distinct"]
        res.transitions += st["states"]
        M = Module(mod)
        ref = lib.build_module(M)
        if not ref.ok:
            raise Infra("reference build failed: " + ref.err)
        evs = lib.convert_events(M, scns, lib.run_driver(ref, M, scns))
        refbytes = {}
        for e in evs:
            if e["a"] == "Encode" and "bytes" in e:
                refbytes[e["id"]] = e["bytes"]
        # thorough: all 31 subsets on VA, the quick sets on the other modules
        for flags in (sets if (tier == "thorough" and M.name == "VA") else OPTION_SETS_QUICK if tier == "thorough" else sets if M.name != "VO" else [sets[0], sets[-1]]):
            b = lib.build_module(M, flags=flags)
            if not b.ok:
                sig = {"module": M.name, "a": "Compile", "reason": "option-build-failed", "style": " ".join(flags)}
                res.violations.append((sig, {"property": "C13", "signature": sig, "flags": flags, "error": b.err[-1500:], "asn1c": b.asn1c_out[-800:]}))
                continue
            sess = []
            for s in scns:
                if s["id"] not in refbytes:
                    continue
                syn = s["plan"][1]["syn"]
                # "disabling an unused codec": the disabled codec is not used; the others must not change
                if (syn == "UPER" and "-no-gen-PER" in flags) or (syn == "OER" and "-no-gen-OER" in flags):
                    continue
                sess.append({"id": len(sess) + 1, "ty": s["ty"], "val": s["val"],
                             "plan": [{"a": "Build", "slot": 1}, {"a": "Adopt", "syn": syn, "bytes": refbytes[s["id"]]},
                                      {"a": "Encode", "slot": 1, "syn": syn},
                                      {"a": "DecodeLit", "slot": 2, "syn": syn, "bytes": refbytes[s["id"]], "style": " ".join(flags)},
                                      {"a": "Compare", "s1": 1, "s2": 2}]})
                res.distinct.add(nontrivial(M, s) + (" ".join(flags),))
            run_sessions(res, M, mod, sess, "Trace_Codec", flags=flags, known=known, constants=consts)
            log("C13 module %s options %s: %d sessions, %d violations so far, %.0fs" % (M.name, " ".join(flags), len(sess), len(res.violations), time.time() - t0))
    return finish(res, tier, seed, "model_checking", t0,
                  "the build without options encodes every (type, value) of the universe in DER, UPER, OER, CANONICAL-XER and BASIC-XER; for each option set (quick: each representation option alone and all together; thorough: all 31 non-empty subsets of -fwide-types -fcompound-names -findirect-choice -fno-include-deps -fincludes-quoted) the option build must produce identical octets, decode the reference octets (RC_OK, all consumed, same value) and compare equal; the driver walks descriptors, so it is independent of the C representation",
                  ASSUME_CODEC + ["the reference for C13 is the default build of the same tree (the property is relative)"])


def check_C01(tier, seed):
    # 16K..64K-element values (fragmented lengths): the implementation's own encoding decoded back (module VB)
    res = codec_family("C01", tier, seed, "big", exact=False, modules=(4,), finish_it=False)
    return codec_family("C01", tier, seed, "rt" if tier == "quick" else "chain", exact=False, res=res,
                        rule="sessions Build, Encode(s), Decode(s), Compare, Encode(DER) for every syntax s (thorough: all ordered pairs of syntaxes as transcoding chains) over every (type, value) of the universe; distinct = distinct (module, type, value)")


# ---- helper APIs (C16, C17) ---------------------------------------------------------------
HELPER_MOD = {"name": "HLP", "tagging": "EXPLICIT", "defs": [
    {"n": "HI", "t": {"k": "INTEGER", "c": {"op": "none"}}}, {"n": "HR", "t": {"k": "REAL"}},
    {"n": "HO", "t": {"k": "OID"}}, {"n": "HRO", "t": {"k": "RELOID"}},
    {"n": "HG", "t": {"k": "STRING", "st": "GeneralizedTime", "size": {"op": "none"}, "alpha": []}},
    {"n": "HU", "t": {"k": "STRING", "st": "UTCTime", "size": {"op": "none"}, "alpha": []}}]}
ASSUME_HELPERS = ["Helpers.tla (X.690 8.3, 8.5/11.3, 8.19, civil calendar) is the reference", "TLC, the Json module, the python glue",
                  "LP64: long = intmax_t = 64 bit; the driver passes raw octets / decimal text only",
                  "boundary-biased finite argument sets (spec/MC_Helpers.tla), not all values"]


def big_of_dec(s):
    from asn1gen import int_to_big
    return int_to_big(int(s))


def dec_of_big(b):
    from asn1gen import big_to_int
    return str(big_to_int(b))


def nat_of_mag(m):
    n = 0
    for o in m:
        n = n * 256 + o
    return n


def mag_of_nat(n):
    out = []
    while n:
        out.append(n & 255)
        n >>= 8
    return out[::-1]


def helper_line(c):
    op = c["op"]
    if op == "script":
        return "script %d %s %s" % (c["id"], c["kind"], " ".join(("%s:%s" % (st["ty"], dec_of_big(st["x"]))) if st["op"] == "int2c"
                                                                  else "d:" + bytes(st["d"]).hex() for st in c["steps"]))
    if op == "int2c":
        return "int2c %d %s %s" % (c["id"], c["ty"], dec_of_big(c["x"]))
    if op == "c2int":
        return "c2int %d %s %s" % (c["id"], c["ty"], bytes(c["o"]).hex())
    if op == "d2r":
        return "d2r %d %s" % (c["id"], bytes(c["d"]).hex())
    if op == "num":
        return "num %d %s %s" % (c["id"], c["ty"], bytes(c["txt"]).decode())
    if op in ("setarcs", "parse"):
        return "%s %d %s" % (op, c["id"], ".".join(str(nat_of_mag(a)) for a in c["arcs"]))
    if op == "getarcs":
        return "getarcs %d %d %s" % (c["id"], c["slots"], ".".join(str(nat_of_mag(a)) for a in c["arcs"]))
    if op == "time":
        return "time %d %d %d %s %s" % (c["id"], c["days"], c["sod"], bytes(c["frac"]).decode() or "-", c["tz"])
    raise Infra("helper op " + op)


def helper_event(ev):
    ev = dict(ev)
    for k in ("octets", "gt", "ut"):
        if k in ev:
            ev[k] = list(bytes.fromhex(ev[k]))
    op = ev.get("op")
    if op == "script":
        ev["steps"] = [helper_event(st) for st in ev["steps"]]
        return ev
    if op in ("int2c",):
        ev["back"] = big_of_dec(ev["back"])
    if op in ("c2int", "num"):
        ev["v"] = big_of_dec(ev["v"])
    if op == "d2r":
        ev["back"] = list(bytes.fromhex(ev["back"]))
    if op in ("setarcs", "getarcs", "parse"):
        ev["back"] = [mag_of_nat(int(a)) for a in ev["back"]]
    return ev


def run_helper_driver(b, calls):
    import subprocess, tempfile, shutil
    work = tempfile.mkdtemp(prefix="hlp-", dir=lib.SCRATCH)
    events, todo = [], list(calls)
    try:
        while todo:
            sp, ep = os.path.join(work, "s"), os.path.join(work, "e")
            open(sp, "w").write("\n".join(helper_line(c) for c in todo) + "\n")
            r = subprocess.run([b.driver, sp, ep], stdout=subprocess.PIPE, stderr=subprocess.STDOUT, text=True, errors="replace", timeout=900,
                               env=dict(os.environ, ASAN_OPTIONS="detect_leaks=0:abort_on_error=1", UBSAN_OPTIONS="halt_on_error=1:abort_on_error=1"))
            got = []
            for line in open(ep, errors="replace"):
                try:
                    got.append(json.loads(line))
                except ValueError:
                    pass
            events += got
            if r.returncode == 0:
                break
            last = got[-1]["id"] if got else todo[0]["id"]
            if not got or got[-1]["a"] == "Call":
                # died inside the call after `last` (its line was not completed)
                ids = [c["id"] for c in todo]
                nxt = ids.index(last) + 1 if got else 0
                if nxt < len(todo):
                    events.append({"id": todo[nxt]["id"], "a": "Crash", "sig": r.returncode, "detail": r.stdout[-600:]})
                    todo = todo[nxt + 1:]
                else:
                    break
            else:
                ids = [c["id"] for c in todo]
                todo = todo[ids.index(last) + 1:]
    finally:
        shutil.rmtree(work, ignore_errors=True)
    return events


def helper_family(prop, tier, seed, families, rule):
    t0 = time.time()
    res = Result(prop)
    known = lib.load_findings(prop)
    M = Module(HELPER_MOD)
    b = lib.build_module(M, san="asan", driver_src=os.path.join(lib.VERIF, "harness", "driver", "helper_driver.c"), wrap=False)
    if not b.ok:
        raise Infra("helper driver does not build: %s %s" % (b.err, b.asn1c_out[-500:]))
    for fam in families:
        if fam == "oidapi":
            oidapi_family(res, b, prop, tier, known)
            continue
        consts = ['Family = "%s"' % fam, "Dense = %s" % ("TRUE" if tier == "thorough" else "FALSE")]
        _, calls, st = lib.generate("MC_Helpers", consts, ["RefSound", "Export"])
        res.states += st["distinct"]
        res.transitions += st["states"]
        evs = [helper_event(e) for e in run_helper_driver(b, calls)]
        mism, tot = lib.judge("MC_Helpers", None, calls, evs, constants=consts, shards=8 if len(calls) > 3000 else 2)
        mism = expand(mism)
        res.states += tot["distinct"]
        res.transitions += tot["states"]
        res.sessions += len(calls)
        res.events += tot["events"]
        byid = {c["id"]: c for c in calls}
        evid = {e["id"]: e for e in evs}
        for c in calls:
            res.distinct.add(json.dumps({k: v for k, v in c.items() if k != "id"}, sort_keys=True))
        if calls and len(res.samples) < 5:
            c0 = calls[len(calls) // 2]
            res.samples.append({"call": c0, "event": evid.get(c0["id"])})
        for m in mism:
            c = byid[m["id"]]
            sig = {"op": c["op"], "ty": c.get("ty"), "reason": m["reason"], "family": fam}
            f = None
            for kf in known:
                alts = kf["match"] if isinstance(kf["match"], list) else [kf["match"]]
                for alt in alts:
                    mt = dict(alt)
                    pred = mt.pop("pred", None)
                    if "op" not in mt:
                        continue
                    if lib.finding_matches({"match": mt}, sig) and (not pred or F.HPREDS[pred](c, evid.get(m["id"], {}))):
                        f = kf
            if f:
                res.known[f["id"]] = res.known.get(f["id"], 0) + 1
            else:
                res.violations.append((sig, {"property": prop, "signature": sig, "helper": True, "family": fam, "call": c,
                                             "event": evid.get(m["id"]), "constants": consts}))
        log("%s family %s: %d calls, %d violations so far, %.0fs" % (prop, fam, len(calls), len(res.violations), time.time() - t0))
    return finish(res, tier, seed, "model_checking", t0, rule, ASSUME_HELPERS)


def oidapi_line(c):
    def tok(op):
        if op["op"] == "set":
            return "set:" + (".".join(str(nat_of_mag(a)) for a in op["arcs"]) or "-")
        if op["op"] == "load":
            return "load:" + (bytes(op["o"]).hex() or "-")
        return "get:%d" % op["slots"]
    return "oidapi %d %s %s" % (c["id"], c["kind"], " ".join(tok(o) for o in c["script"]))


def run_oidapi_driver(b, scns):
    """scripts of calls on one object; a crash ends only the script it happened in"""
    import subprocess, tempfile, shutil
    work = tempfile.mkdtemp(prefix="oid-", dir=lib.SCRATCH)
    events, todo = [], list(scns)
    try:
        while todo:
            sp, ep = os.path.join(work, "s"), os.path.join(work, "e")
            open(sp, "w").write("\n".join(oidapi_line(c) for c in todo) + "\n")
            r = subprocess.run([b.driver, sp, ep], stdout=subprocess.PIPE, stderr=subprocess.STDOUT, text=True, errors="replace", timeout=900,
                               env=dict(os.environ, ASAN_OPTIONS="detect_leaks=0:abort_on_error=1", UBSAN_OPTIONS="halt_on_error=1:abort_on_error=1"))
            got = []
            for line in open(ep, errors="replace"):
                try:
                    got.append(json.loads(line))
                except ValueError:
                    pass
            if r.returncode == 0:
                events += got
                break
            # the script that was running when the process died is the last one with a Begin line
            begun = [e["id"] for e in got if e["a"] == "Begin"]
            cur = begun[-1] if begun else todo[0]["id"]
            if not got or got[-1]["a"] not in ("Crash", "Timeout") or got[-1]["id"] != cur:
                done = len([e for e in got if e["id"] == cur and e["a"] == "Call"])
                got.append({"id": cur, "i": done + 1, "a": "Crash", "sig": r.returncode, "detail": r.stdout[-600:]})
            elif not got[-1].get("i"):
                got[-1]["i"] = len([e for e in got if e["id"] == cur and e["a"] == "Call"]) + 1
            events += got
            ids = [c["id"] for c in todo]
            todo = todo[ids.index(cur) + 1:]
    finally:
        shutil.rmtree(work, ignore_errors=True)
    out = []
    for e in events:
        if e["a"] in ("Begin", "End"):
            continue
        e = dict(e)
        if "octets" in e:
            e["octets"] = list(bytes.fromhex(e["octets"]))
        if "back" in e:
            e["back"] = [mag_of_nat(int(a)) for a in e["back"]]
        out.append(e)
    return out


def oidapi_family(res, b, prop, tier, known):
    """OidApi.tla: the arc API as a state machine over one object (scripts of Set / Load / Get)"""
    consts = ["Depth = %d" % (3 if tier == "thorough" else 2), "Dense = %s" % ("TRUE" if tier == "thorough" else "FALSE")]
    _, scns, st = lib.generate("MC_OidApi", consts, ["SetGetInverse", "CanonicalContents", "Export"], names=False)
    res.states += st["distinct"]
    res.transitions += st["states"]
    evs = run_oidapi_driver(b, scns)
    mism, tot = lib.judge("MC_OidApi", None, scns, evs, constants=consts, shards=8 if len(scns) > 3000 else 2)
    mism = expand(mism)
    res.states += tot["distinct"]
    res.transitions += tot["states"]
    res.sessions += len(scns)
    res.events += tot["events"]
    byid = {c["id"]: c for c in scns}
    for c in scns:
        res.distinct.add(json.dumps({k: v for k, v in c.items() if k != "id"}, sort_keys=True))
    beyond = res.notes.setdefault("beyond_property_deviations", {})
    for m in mism:
        c = byid[m["id"]]
        op = c["script"][m["i"] - 1] if 0 < m["i"] <= len(c["script"]) else {"op": "?"}
        if m["reason"].startswith("x:"):
            # a clause of the header's contract that the text of the property does not state: recorded, not an alarm
            key = "%s %s %s" % (c["kind"], op["op"], m["reason"][2:])
            ent = beyond.setdefault(key, {"count": 0, "example": oidapi_line(c) + " @step %d" % m["i"]})
            ent["count"] += 1
            continue
        sig = {"op": "oidapi-" + op["op"], "kind": c["kind"], "reason": m["reason"], "family": "oidapi"}
        res.violations.append((sig, {"property": prop, "signature": sig, "helper": True, "family": "oidapi", "scenario": c,
                                     "events": [e for e in evs if e["id"] == m["id"]], "constants": consts}))
    for key, ent in sorted(beyond.items()):
        print("NOTE: beyond the text of %s (header contract, see DESIGN.md 14.9): %s (%d calls), e.g. %s" % (prop, key, ent["count"], ent["example"]))
    log("%s family oidapi: %d scripts, %d events, %d violations so far" % (prop, len(scns), tot["events"], len(res.violations)))


def check_C16(tier, seed):
    return helper_family("C16", tier, seed, ["int", "real", "num", "reuse"],
                         "every ordered pair (thorough: triple) of conversions into ONE INTEGER_t / REAL_t object over ten values of different lengths, signs, C types and special REALs (contents and read-back must not depend on what the object held); calls enumerated by TLC from spec/MC_Helpers.tla: every boundary integer of each C type through asn_<ty>2INTEGER and back; INTEGER contents (all 1-octet strings, 2-octet boundary set / all in thorough, sign-padded forms up to 10 octets of every edge value) through asn_INTEGER2<ty>; doubles for a set of (thorough: all 2048) biased exponents x 7 mantissa patterns x 2 signs plus specials and subnormals through asn_double2REAL and back; numerals around every overflow boundary, with leading zeros, through the four strto*_lim parsers")


def check_C17(tier, seed):
    return helper_family("C17", tier, seed, ["oid", "oidapi", "time"],
                         "scripts of Set / Load / Get calls on ONE OBJECT IDENTIFIER or RELATIVE-OID object (spec/OidApi.tla: every script of 2, thorough 3, operations over valid and invalid vectors, loaded contents and slot counts; a successful Set replaces whatever the object held, a failed one changes nothing); arc vectors with every valid first pair x boundary arcs up to 2^32-1: set_arcs (octets = X.690 8.19), get_arcs with enough and with too few slots, parse of the dotted text; time_t at calendar edges (epoch, leap days, century rules, 2038, 2106, years 1 and 9999) x seconds of day x fractional digits x 8 POSIX TZ settings (half-hour, 45-minute, DST, +14h): forced-GMT GeneralizedTime / UTCTime text and back")


# ---- compiler: legality (C11) ----------------------------------------------------------------
ASSUME_COMPILER = ["Asn1Tags.tla (AUTOMATIC tagging transformation, IMPLICIT-on-CHOICE rule, outermost tag sets, X.680 25.6 / 27.3 / 29.3 distinctness) is the reference",
                   "TLC, the Json module, the python glue that renders type terms to ASN.1 text",
                   "bounded module universe of spec/MC_Legal.tla"]


def run_asn1c(text, flags=(), name="m.asn1"):
    """one compiler run in a scratch directory; returns dict(exit, signal, diag, files)"""
    import subprocess, tempfile, shutil
    m = lib.ensure_mirror()
    d = tempfile.mkdtemp(prefix="a1c-", dir=lib.SCRATCH)
    try:
        open(os.path.join(d, name), "w").write(text)
        try:
            r = subprocess.run([m["asn1c"], "-S", m["skeletons"], "-no-gen-example"] + list(flags) + [name], cwd=d,
                               stdout=subprocess.PIPE, stderr=subprocess.PIPE, text=True, errors="replace", timeout=60)
            rc = r.returncode
            err = r.stderr
        except subprocess.TimeoutExpired:
            rc, err = -14, "timeout"
        files = [f for f in os.listdir(d) if f.endswith((".c", ".h")) ]
        return {"exit": rc if rc >= 0 else 0, "signal": -rc if rc < 0 else 0, "diag": bool(err.strip()), "files": len(files),
                "stderr": err[-300:]}
    finally:
        shutil.rmtree(d, ignore_errors=True)


def run_asn1c_batch(texts, flags=(), name="m.asn1", jobs=None):
    """many compiler runs, one scratch directory each, driven by xargs (spawning tens of thousands of processes from
    the python process itself is slow); returns the list of dict(exit, signal, diag, files, stderr)"""
    import subprocess, tempfile, shutil
    m = lib.ensure_mirror()
    root = tempfile.mkdtemp(prefix="a1cb-", dir=lib.SCRATCH)
    try:
        for i, t in enumerate(texts):
            d = os.path.join(root, str(i))
            os.mkdir(d)
            open(os.path.join(d, name), "w").write(t)
        script = os.path.join(root, "one.sh")
        open(script, "w").write("#!/bin/sh\ncd \"$1\" || exit 0\ntimeout 60 %s -S %s -no-gen-example %s %s >out.txt 2>err.txt\necho $? >rc.txt\n"
                                % (m["asn1c"], m["skeletons"], " ".join(flags), name))
        os.chmod(script, 0o755)
        lst = os.path.join(root, "dirs.txt")
        open(lst, "w").write("".join(os.path.join(root, str(i)) + "\n" for i in range(len(texts))))
        subprocess.run("xargs -a %s -P %d -n 1 %s" % (lst, jobs or lib.NCPU, script), shell=True, check=False)
        out = []
        for i in range(len(texts)):
            d = os.path.join(root, str(i))
            try:
                rc = int(open(os.path.join(d, "rc.txt")).read().strip() or "0")
            except (OSError, ValueError):
                rc = 255
            try:
                err = open(os.path.join(d, "err.txt"), errors="replace").read()
            except OSError:
                err = ""
            sig = rc - 128 if rc > 128 and rc != 255 else (14 if rc == 124 else 0)     # sh reports a fatal signal as 128 + n
            files = [f for f in os.listdir(d) if f.endswith((".c", ".h"))]
            out.append({"exit": 0 if sig else rc, "signal": sig, "diag": bool(err.strip()), "files": len(files), "stderr": err[-300:]})
        return out
    finally:
        shutil.rmtree(root, ignore_errors=True)


def check_C11(tier, seed):
    from concurrent.futures import ThreadPoolExecutor
    t0 = time.time()
    res = Result("C11")
    known = lib.load_findings("C11")
    consts = ["MaxComps = 3", "Rich = FALSE"]
    _, scns, st = lib.generate("MC_Legal", consts, ["Export"], workers=4)
    if tier == "thorough":
        # the rich palette (13 component types, every fault at every size) with up to two components in addition
        _, more, st2 = lib.generate("MC_Legal", ["MaxComps = 2", "Rich = TRUE"], ["Export"], workers=4)
        for s in more:
            s["id"] = len(scns) + 1
            scns.append(s)
        st = {k: st[k] + st2[k] if isinstance(st[k], (int, float)) else st[k] for k in st}
    res.states += st["distinct"]
    res.transitions += st["states"]
    verdicts = {True: 0, False: 0}
    for s in scns:
        verdicts[bool(s["legal"])] += 1
    if not verdicts[True] or not verdicts[False]:
        raise Infra("vacuous module universe: %r" % verdicts)
    lib.ensure_mirror()

    # -R: tables only (the support code is not copied 40 000 times); parsing, fixing and code generation are the same
    def source(s):
        t = Module(s["mod"]).text()
        f = s["fault"]
        if not f.startswith("import-"):
            return t
        t = t.replace("BEGIN\n", "BEGIN\n\nIMPORTS Ext FROM LX;\n", 1)
        exports = {"import-ok": "EXPORTS Ext;\n", "import-ok-exports-all": "", "import-no-symbol": "", "import-not-exported": "EXPORTS Other;\n"}
        if f != "import-no-module":
            body = "Other ::= BOOLEAN\n" + ("" if f == "import-no-symbol" else "Ext ::= OCTET STRING\n")
            t += "\nLX DEFINITIONS ::= BEGIN\n%s%sEND\n" % (exports[f], body)
        return t
    evs = run_asn1c_batch([source(s) for s in scns], flags=("-R",))
    for s, r in zip(scns, evs):
        r.update({"id": s["id"], "a": "Asn1c"})
    mism, tot = lib.judge("MC_Legal", None, scns, evs, constants=consts, shards=8)
    mism = expand(mism)
    res.states += tot["distinct"]
    res.transitions += tot["states"]
    res.sessions += len(scns)
    res.events += len(evs)
    byid = {s["id"]: s for s in scns}
    evid = {e["id"]: e for e in evs}
    for s in scns:
        res.distinct.add(json.dumps(s["mod"]["defs"][0], sort_keys=True) + s["mod"]["tagging"] + s["fault"])
    res.samples.append({"module_text": Module(scns[len(scns) // 2]["mod"]).text(), "legal": scns[len(scns) // 2]["legal"], "event": evid[scns[len(scns) // 2]["id"]]})
    for m in mism:
        s = byid[m["id"]]
        top = s["mod"]["defs"][0]["t"]
        sig = {"op": "asn1c", "kind": top["k"], "tagging": s["mod"]["tagging"], "fault": s["fault"], "reason": m["reason"]}
        f = None
        for kf in known:
            for alt in (kf["match"] if isinstance(kf["match"], list) else [kf["match"]]):
                mt = dict(alt)
                pred = mt.pop("pred", None)
                if mt.get("op") == "asn1c" and lib.finding_matches({"match": mt}, sig) and (not pred or F.MPREDS[pred](s, evid[m["id"]])):
                    f = kf
        if f:
            res.known[f["id"]] = res.known.get(f["id"], 0) + 1
        else:
            res.violations.append((sig, {"property": "C11", "signature": sig, "module": s["mod"], "module_text": Module(s["mod"]).text(),
                                         "legal_per_spec": s["legal"], "event": evid[m["id"]]}))
    res.notes["verdicts"] = {"legal": verdicts[True], "illegal": verdicts[False]}
    return finish(res, tier, seed, "model_checking", t0,
                  "TLC enumerates (breadth-first over the module-construction state machine) every CHOICE / SET / SEQUENCE of 2..3 components over a tag palette (untagged, context / application tags, IMPLICIT / EXPLICIT, references to untagged and tagged CHOICEs) x OPTIONAL flags x {EXPLICIT, IMPLICIT, AUTOMATIC} TAGS x one injected fault (duplicate identifier, duplicate enumeration name / value, dangling reference, none); asn1c is run on each module; distinct = distinct (top type, tagging, fault)",
                  ASSUME_COMPILER, exhaustive=True)


# ---- compiler: effective constraints (C09) --------------------------------------------------------
def parse_printed(line):
    """'(1..3 | 8..10,...)' -> spec record {has, lb, ub, ext}"""
    import re
    from asn1gen import int_to_big
    body = line.strip()
    m = re.search(r"\((.*)\)\s*$", body)
    if not m:
        return {"has": False, "lb": {"k": "MIN"}, "ub": {"k": "MAX"}, "ext": False}
    inner = m.group(1).strip()
    if inner.startswith("SIZE(") and inner.endswith(")"):
        inner = inner[5:-1]
    ext = "..." in inner
    inner = inner.split(",")[0].strip() if ext else inner
    lo, hi = None, None

    def bnd(t):
        t = t.strip()
        if t == "MIN":
            return ("MIN", None)
        if t == "MAX":
            return ("MAX", None)
        return ("V", int(t))
    pieces = []
    for piece in inner.split("|"):
        piece = piece.strip()
        if not piece:
            continue
        if ".." in piece:
            a, b = piece.split("..")
            pieces.append((bnd(a), bnd(b)))
        else:
            pieces.append((bnd(piece), bnd(piece)))
    if not pieces:
        return {"has": False, "lb": {"k": "MIN"}, "ub": {"k": "MAX"}, "ext": ext}

    def key_lo(b):
        return (-1, 0) if b[0] == "MIN" else (1, 0) if b[0] == "MAX" else (0, b[1])
    lo = min((p[0] for p in pieces), key=key_lo)
    hi = max((p[1] for p in pieces), key=key_lo)

    def js(b):
        return {"k": b[0]} if b[0] != "V" else {"k": "V", "v": int_to_big(b[1])}
    has = not (lo[0] == "MIN" and hi[0] == "MAX" and not ext)
    return {"has": has, "lb": js(lo), "ub": js(hi), "ext": ext}


def check_C09(tier, seed):
    import subprocess, tempfile, shutil, re
    from concurrent.futures import ThreadPoolExecutor
    from asn1gen import constraint
    t0 = time.time()
    res = Result("C09")
    known = lib.load_findings("C09")
    parts = 4
    depth = 2
    scns = []

    def gen(part):
        consts = ["Depth = %d" % depth, "Part = %d" % part, "Parts = %d" % parts]
        return lib.generate("MC_Constraints", consts, ["Sound", "Export"], workers=2)
    with ThreadPoolExecutor(4) as ex:
        for _, sc, st in ex.map(gen, range(parts)):
            scns += sc
            res.states += st["distinct"]
            res.transitions += st["states"]
    for i, s in enumerate(scns):
        s["id"] = i + 1
    m = lib.ensure_mirror()
    evs = []
    work = tempfile.mkdtemp(prefix="c09-", dir=lib.SCRATCH)
    try:
        B = 150
        for b0 in range(0, len(scns), B):
            batch = scns[b0:b0 + B]
            text = "C9 DEFINITIONS ::= BEGIN\n" + "".join("T%d ::= INTEGER%s\n" % (s["id"], constraint(s["expr"])) for s in batch) + "END\n"
            p = os.path.join(work, "m%d.asn1" % b0)
            open(p, "w").write(text)
            r = subprocess.run([m["asn1c"], "-E", "-F", "-print-constraints", p], stdout=subprocess.PIPE, stderr=subprocess.PIPE, text=True, errors="replace", timeout=120)
            per, oer = {}, {}
            cur = None
            for line in r.stdout.splitlines():
                mm = re.match(r"^T(\d+) ::=", line)
                if mm:
                    cur = int(mm.group(1))
                mm = re.match(r"^-- PER-visible constraints \(\S+\):(.*)$", line)
                if mm and cur:
                    per[cur] = parse_printed(mm.group(1))
                mm = re.match(r"^-- OER-visible constraints \(\S+\):(.*)$", line)
                if mm and cur:
                    oer[cur] = parse_printed(mm.group(1))
            if r.returncode != 0 or len(per) != len(batch):
                # some expression of the batch is rejected: run them one by one
                for s in batch:
                    t1 = "C9 DEFINITIONS ::= BEGIN\nT%d ::= INTEGER%s\nEND\n" % (s["id"], constraint(s["expr"]))
                    open(p, "w").write(t1)
                    r1 = subprocess.run([m["asn1c"], "-E", "-F", "-print-constraints", p], stdout=subprocess.PIPE, stderr=subprocess.PIPE, text=True, errors="replace", timeout=60)
                    pp = oo = None
                    for line in r1.stdout.splitlines():
                        mm = re.match(r"^-- PER-visible constraints \(\S+\):(.*)$", line)
                        if mm:
                            pp = parse_printed(mm.group(1))
                        mm = re.match(r"^-- OER-visible constraints \(\S+\):(.*)$", line)
                        if mm:
                            oo = parse_printed(mm.group(1))
                    dflt = {"has": False, "lb": {"k": "MIN"}, "ub": {"k": "MAX"}, "ext": False}
                    evs.append({"id": s["id"], "a": "Print", "exit": r1.returncode if pp else (r1.returncode or 1), "per": pp or dflt, "oer": oo or dflt,
                                "stderr": r1.stderr[-200:]})
            else:
                for s in batch:
                    evs.append({"id": s["id"], "a": "Print", "exit": 0, "per": per[s["id"]], "oer": oer[s["id"]]})
    finally:
        shutil.rmtree(work, ignore_errors=True)
    consts = ["Depth = %d" % depth, "Part = 0", "Parts = 1"]
    mism, tot = lib.judge("MC_Constraints", None, scns, evs, constants=consts, shards=8)
    mism = expand(mism)
    res.states += tot["distinct"]
    res.transitions += tot["states"]
    res.sessions += len(scns)
    res.events += len(evs)
    byid = {s["id"]: s for s in scns}
    evid = {e["id"]: e for e in evs}
    for s in scns:
        res.distinct.add(json.dumps(s["expr"], sort_keys=True))
    res.samples.append({"expression": "INTEGER" + constraint(scns[len(scns) // 2]["expr"]), "spec": {k: scns[len(scns) // 2][k] for k in ("per", "oer")},
                        "printed": evid[scns[len(scns) // 2]["id"]]})
    for mm_ in mism:
        s = byid[mm_["id"]]
        sig = {"op": "print-constraints", "shape": shape_of(s["expr"]), "reason": mm_["reason"]}
        f = None
        for kf in known:
            for alt in (kf["match"] if isinstance(kf["match"], list) else [kf["match"]]):
                mt = dict(alt)
                pred = mt.pop("pred", None)
                if mt.get("op") == "print-constraints" and lib.finding_matches({"match": mt}, sig) and (not pred or F.MPREDS[pred](s, evid[mm_["id"]])):
                    f = kf
        if f:
            res.known[f["id"]] = res.known.get(f["id"], 0) + 1
        else:
            res.violations.append((sig, {"property": "C09", "signature": sig, "expression": "INTEGER" + constraint(s["expr"]), "expr": s["expr"],
                                         "spec": {"per": s["per"], "oer": s["oer"]}, "event": evid[mm_["id"]]}))
    log("C09 print-constraints: %d expressions, %d violations, %.0fs" % (len(scns), len(res.violations), time.time() - t0))
    # the layout the codecs actually use: reference UPER / OER octets for types built from constraint expression trees
    os.environ.pop("VERIF_MODULES", None)
    codec_family("C09", tier, seed, "enc", modules=(5,), res=res, finish_it=False)
    return finish(res, tier, seed, "model_checking", t0,
                  "(a) every constraint expression of depth <= 2 over the points {MIN,-2,0,3,5,MAX}: ranges and single values, union, intersection, EXCEPT, serial application, extension marker (with and without additions, inside unions / intersections / serial applications); non-empty ones only; asn1c -E -F -print-constraints is run on each and the printed PER-visible / OER-visible ranges are compared with Eff / OerEff of the specification; (b) module VC of spec/Universe.tla (unions incl. adjacent / overlapping / single values, intersections, EXCEPT, serial application, subtype chains through references, extension markers, 32/64-bit boundary values, SIZE constraints): every boundary value encoded by the generated UPER / OER codecs and compared with the reference octets; distinct = distinct expression trees + distinct (type, value)",
                  ASSUME_COMPILER, exhaustive=True)


def shape_of(c):
    if c["op"] in ("none", "range"):
        return c["op"]
    return c["op"] + "(" + ",".join(shape_of(c[k]) for k in ("a", "b") if k in c and c[k]["op"] != "none") + ")"


# ---- compiler as a function of its input (C12) -----------------------------------------------------
def check_C12(tier, seed):
    import subprocess, tempfile, shutil, hashlib, re, glob
    from concurrent.futures import ThreadPoolExecutor
    t0 = time.time()
    res = Result("C12")
    m = lib.ensure_mirror()
    work = tempfile.mkdtemp(prefix="c12-", dir=lib.SCRATCH)
    try:
        src = {}
        rc, out, st = lib.run_tlc("MC_Mod", "", names=False)
        for mj in lib.tlc_payload(out, "MOD"):
            if mj["name"] in ("VE", "VA", "VI", "VC", "VX1", "VX2", "VX3", "VO", "VP", "VQ"):
                src[mj["name"]] = Module(mj).text()
        corpus = sorted(glob.glob(os.path.join(lib.REPO, "tests", "tests-asn1c-compiler", "*-OK.asn1"))) + \
            sorted(glob.glob(os.path.join(lib.REPO, "examples", "*.asn1")))
        if tier == "quick":
            corpus = corpus[::4]
        for f in corpus:
            name = re.sub(r"[^A-Za-z0-9]", "x", os.path.basename(f))[:40]
            try:
                src["c" + name] = open(f, errors="replace").read()
            except OSError:
                pass
        # hand-written syntax fixtures (harness/fixtures): lexical spellings and constructs the generated modules never
        # use (character tuples / quadruples, value definitions, COMPONENTS OF, WITH COMPONENTS, extension groups, ...)
        fixtures = []
        for f in sorted(glob.glob(os.path.join(lib.VERIF, "harness", "fixtures", "*.asn1"))):
            k = "Z" + re.sub(r"[^A-Za-z0-9]", "", os.path.basename(f)[:-5])
            src[k] = open(f).read()
            fixtures.append(k)
        # the same-code clause is claimed over generated, non-parameterized modules only
        plain = [k for k in ("VE", "VA", "VI", "VC", "VX1", "VX2", "VX3", "VO", "VP") if k in src] + fixtures
        singles = sorted(src)
        groups = [["VX1", "VX2"], ["VX1", "VX2", "VX3"], ["VE", "VC"], ["VA", "VC", "VX3"]]
        q = lambda xs: "{%s}" % ", ".join('"%s"' % x for x in xs)
        consts = ["Singles = " + q(singles), "Groups = {%s}" % ", ".join(q(g) for g in groups), "Plain = " + q(plain)]
        _, scns, st = lib.generate("MC_Runs", consts, ["Export"], workers=2)
        res.states += st["distinct"]
        res.transitions += st["states"]
        skel = set(os.listdir(m["skeletons"]))

        def digest_dir(d):
            allh, typeh = hashlib.sha256(), hashlib.sha256()
            for fn in sorted(os.listdir(d)):
                if fn.endswith(".asn1"):
                    continue
                data = open(os.path.join(d, fn), "rb").read()
                data = b"\n".join(l for l in data.split(b"\n") if b"found in" not in l and b"`asn1c " not in l)
                allh.update(fn.encode() + b"\0" + data)
                if fn.endswith((".c", ".h")) and fn not in skel:
                    typeh.update(fn.encode() + b"\0" + data)
            return allh.hexdigest()[:16], typeh.hexdigest()[:16]

        def compile_(files):
            d = tempfile.mkdtemp(prefix="r-", dir=work)
            for name, text in files:
                open(os.path.join(d, name + ".asn1"), "w").write(text)
            try:
                r = subprocess.run([m["asn1c"], "-S", m["skeletons"], "-no-gen-example"] + [n + ".asn1" for n, _ in files], cwd=d,
                                   stdout=subprocess.PIPE, stderr=subprocess.PIPE, timeout=120)
                rc = r.returncode
            except subprocess.TimeoutExpired:
                rc = -14
            a, t = digest_dir(d)
            shutil.rmtree(d, ignore_errors=True)
            if rc != 0:
                a = t = "exit:%d" % rc
            return rc, a, t

        def print_(name, text):
            d = tempfile.mkdtemp(prefix="p-", dir=work)
            open(os.path.join(d, name + ".asn1"), "w").write(text)
            try:
                r = subprocess.run([m["asn1c"], "-E", name + ".asn1"], cwd=d, stdout=subprocess.PIPE, stderr=subprocess.PIPE, timeout=60)
                rc, outb = r.returncode, r.stdout
            except subprocess.TimeoutExpired:
                rc, outb = -14, b""
            shutil.rmtree(d, ignore_errors=True)
            return rc, outb.decode(errors="replace")

        def one(s):
            evs = []
            printed = {}
            for i, op in enumerate(s["plan"]):
                obs, sig = [], 0
                if op["a"] == "Compile":
                    rc, a, t = compile_([(n, src[n]) for n in op["order"]])
                    sig = -rc if rc < 0 else 0
                    obs = [{"key": "all:" + ",".join(op["order"]), "digest": a, "why": "same-input-different-output"},
                           {"key": "types:" + ",".join(sorted(op["order"])), "digest": t, "why": "per-type-files-depend-on-file-order"}]
                elif op["a"] == "Print":
                    f = op["file"]
                    text = src[f] if op["n"] == 1 else printed.get(1, (1, ""))[1]
                    rc, outt = print_(f, text)
                    sig = -rc if rc < 0 else 0
                    printed[op["n"]] = (rc, outt)
                    dg = hashlib.sha256(outt.encode()).hexdigest()[:16] if rc == 0 else "exit:%d" % rc
                    if op["n"] == 2 and printed.get(1, (1, ""))[0] != 0:
                        obs = []          # the original was not accepted: nothing to round-trip
                    else:
                        obs = [{"key": "text:" + f, "digest": dg, "why": "printed-text-not-accepted-or-not-a-fixpoint"}]
                elif op["a"] == "CompilePrinted":
                    f = op["file"]
                    if printed.get(1, (1, ""))[0] == 0:
                        rc, a, t = compile_([(f, printed[1][1])])
                        sig = -rc if rc < 0 else 0
                        obs = [{"key": "types:" + f, "digest": t, "why": "printed-module-compiles-to-different-code"}]
                evs.append({"id": s["id"], "i": i + 1, "a": "Observe", "op": op["a"], "signal": sig, "obs": obs})
            return evs
        evs = []
        with ThreadPoolExecutor(lib.NCPU) as ex:
            for e in ex.map(one, scns):
                evs += e
    finally:
        shutil.rmtree(work, ignore_errors=True)
    mism, tot = lib.judge("MC_Runs", None, scns, evs, constants=consts, invariants=["Functional"], shards=1)
    mism = expand(mism)
    res.states += tot["distinct"]
    res.transitions += tot["states"]
    res.sessions += len(scns)
    res.events += len(evs)
    byid = {s["id"]: s for s in scns}
    for s in scns:
        res.distinct.add(json.dumps(s["plan"], sort_keys=True))
    res.samples.append({"schedule": scns[0]["plan"], "events": [e for e in evs if e["id"] == scns[0]["id"]]})
    known = lib.load_findings("C12")
    for mm in mism:
        s = byid[mm["id"]]
        op = s["plan"][mm["i"] - 1]
        sig = {"op": "run", "a": op["a"], "ty": op.get("file") or ",".join(op.get("order", [])), "reason": mm["reason"]}
        f = None
        for kf in known:
            for alt in (kf["match"] if isinstance(kf["match"], list) else [kf["match"]]):
                mt = dict(alt)
                mt.pop("pred", None)
                if mt.get("op") == "run" and lib.finding_matches({"match": mt}, sig):
                    f = kf
        if f:
            res.known[f["id"]] = res.known.get(f["id"], 0) + 1
        else:
            res.violations.append((sig, {"property": "C12", "signature": sig, "schedule": s["plan"], "events": [e for e in evs if e["id"] == s["id"]]}))
    res.notes["files"] = {"generated": 7, "corpus": len(src) - 4, "non_parameterized": len(plain)}
    return finish(res, tier, seed, "model_checking", t0,
                  "schedules enumerated by TLC: per file (universe modules VE VA VI VC and the shipped corpus tests/tests-asn1c-compiler/*-OK.asn1 + examples/*.asn1; quick: every 4th corpus file): compile twice, print, print the printed text, compile the printed text (non-parameterized files); per group of 2-3 files: every permutation of the command line; every run is a separate process under ASLR; outputs are digested per key (header lines naming the source file / command line removed)",
                  ["MC_Runs.tla: the compiler is a function of (file order) resp. (file set) resp. (file)", "TLC, Json module, python glue (digests)",
                   "per-type files = emitted .c/.h files that are not copies of skeleton files"])


# ---- reentrancy (C19) --------------------------------------------------------------------------------
def run_threads(b, M, scns, nthreads, env=None, timeout=600):
    """the sessions are dealt round-robin to nthreads threads that start together; returns (events, process status, output)"""
    import subprocess, tempfile, shutil
    work = tempfile.mkdtemp(prefix="thr-", dir=lib.SCRATCH)
    try:
        scripts = []
        for t in range(nthreads):
            part = scns[t::nthreads]
            sp = os.path.join(work, "s%d" % t)
            open(sp, "w").write("\n".join(lib.script_for(M, part)) + "\n")
            scripts.append(sp)
        e = dict(os.environ)
        e.update({"TSAN_OPTIONS": "halt_on_error=1:exitcode=66:report_signal_unsafe=0:history_size=7:suppressions=" + os.path.join(lib.VERIF, "harness", "tsan.supp"), "ASAN_OPTIONS": "detect_leaks=0"})
        e.update(env or {})
        try:
            r = subprocess.run([b.driver, "--threads", os.path.join(work, "ev")] + scripts, env=e, timeout=timeout,
                               stdout=subprocess.PIPE, stderr=subprocess.STDOUT, text=True, errors="replace")
            rc, outp = r.returncode, r.stdout
        except subprocess.TimeoutExpired:
            rc, outp = -14, "timeout"
        evs = []
        for t in range(nthreads):
            ep = os.path.join(work, "ev.%d" % t)
            if os.path.exists(ep):
                for line in open(ep, errors="replace"):
                    try:
                        evs.append(json.loads(line))
                    except ValueError:
                        pass
        return evs, rc, outp
    finally:
        shutil.rmtree(work, ignore_errors=True)


def check_C19(tier, seed):
    t0 = time.time()
    res = Result("C19")
    known = lib.load_findings("C19")
    # model level: every interleaving of small scripts is sequential per thread
    cfg = open(os.path.join(lib.SPEC, "MC_Threads.cfg")).read()
    rc, out, st = lib.run_tlc("MC_Threads", cfg, names=False, workers=4)
    if rc != 0:
        raise Infra("Threads model: " + lib.tlc_error_excerpt(out))
    res.states += st["distinct"]
    res.transitions += st["states"]
    consts = ("Mod <- TheMod", "ByteExact = FALSE")
    rng = random.Random(seed)
    schedules = 0
    for mi in ((1,) if tier == "quick" else (1, 2, 3)):
        mod, scns, stg = gen_codec(mi, "thread", 2, exact=False, valcap=3 if tier == "quick" else 8, leafcap=4 if tier == "quick" else 0)
        res.states += stg["distinct"]
        res.transitions += stg["states"]
        M = Module(mod)
        for s in scns:
            res.distinct.add(nontrivial(M, s))
        strip = lambda e: {k: v for k, v in e.items() if k not in ("live", "allocfailed")}
        allscns = scns
        for san, reps in (("plain", 2 if tier == "quick" else 6), ("tsan", 2 if tier == "quick" else 6)):
            b = lib.build_module(M, san=san)
            if not b.ok:
                raise Infra("build %s failed: %s" % (san, b.err))
            # the sequential run of the same build: what every call returns when run alone.  A session in which the
            # library dies on its own (recorded crash findings) cannot share a process and is left out.
            seq = lib.run_driver(b, M, allscns)
            dead = {e["id"] for e in seq if e["a"] in ("Crash", "Timeout")}
            scns = [s for s in allscns if s["id"] not in dead]
            seqby = {}
            for e in seq:
                if e["id"] not in dead:
                    seqby.setdefault(e["id"], []).append(strip(e))
            res.notes["sessions_left_out_because_they_crash_alone"] = len(dead)
            for rep in range(reps + 1):
                n = [4, 8, 2, 6, 3, 5][rep % 6]
                order = list(scns)
                if rep == reps:
                    # "same code at the same time": sessions ordered by type and dealt round-robin, so that all threads work
                    # on the same type (the same library functions, the same static data if there were any) side by side;
                    # a happens-before detector misses a race when unrelated synchronisation lies between the two accesses
                    order.sort(key=lambda s: (s["ty"], json.dumps(s["plan"], sort_keys=True)))
                    n = 4
                else:
                    rng.shuffle(order)                  # another deal of sessions to threads = another family of schedules
                evs, prc, outp = run_threads(b, M, order, n)
                schedules += 1
                if prc != 0:
                    why = "data-race" if "ThreadSanitizer" in outp else ("timeout" if prc == -14 else "crash")
                    detail = "\n".join([l for l in outp.splitlines() if "ThreadSanitizer" in l or l.lstrip().startswith(("#0", "#1", "#2", "Write of", "Previous", "Location"))][:14])
                    sig = {"module": M.name, "a": "Threads", "reason": why, "style": "%s x%d" % (san, n)}
                    if not any(kf["match"].get("a") == "Threads" and kf["match"].get("reason") == why and kf["match"].get("needle", "\0") in outp
                               for kf in known if isinstance(kf["match"], dict)):
                        res.violations.append((sig, {"property": "C19", "signature": sig, "detail": detail or outp[-1500:], "threads": n, "build": san}))
                    continue
                # per-thread traces are validated independently of the interleaving: sessions are self-contained
                byid = {}
                for e in evs:
                    byid.setdefault(e["id"], []).append(e)
                for sc_ in scns:                     # the same results as when run alone
                    if [strip(e) for e in byid.get(sc_["id"], [])] != seqby.get(sc_["id"]):
                        sig = {"module": M.name, "ty": sc_["ty"], "a": "Threads", "reason": "result-differs-from-sequential", "style": "%s x%d" % (san, n)}
                        res.violations.append((sig, {"property": "C19", "signature": sig, "scenario": sc_, "concurrent": byid.get(sc_["id"]),
                                                     "sequential": seqby.get(sc_["id"])}))
                ordered = [e for s in scns for e in byid.get(s["id"], [])]
                cev = lib.convert_events(M, scns, ordered)
                run_sessions_events(res, M, mod, scns, cev, "Trace_Codec", known, consts, label="%s x%d" % (san, n))
            log("C19 module %s build %s: %d schedules so far, %d violations, %.0fs" % (M.name, san, schedules, len(res.violations), time.time() - t0))
    res.notes["schedules"] = schedules
    return finish(res, tier, seed, "exploration", t0,
                  "Threads.tla (every interleaving of 3 threads x 4 calls is sequential per thread; no step writes shared state) is model-checked; binding: the sessions Build, Encode(s), Decode, Compare, Check, Print, Free, Free over (type, value, syntax) are dealt to 2..8 threads that start behind a barrier, in several random deals, once in a plain and once in a ThreadSanitizer build; every thread's recorded trace is validated against Codec.tla (the sequential results) independently of the schedule; a TSan report or a crash fails the check",
                  ASSUME_CODEC + ["absence of data races is observed on the explored schedules (ThreadSanitizer), not proved"])


# ---- adversarial depth / length (C15) -----------------------------------------------------------------
def check_C15(tier, seed):
    t0 = time.time()
    res = Result("C15")
    known = lib.load_findings("C15")
    depths = "{1, 3, 6, 100, 1000, 10000, 100000}" if tier == "quick" else "{1, 2, 3, 4, 5, 6, 10, 100, 300, 1000, 3000, 10000, 30000, 100000}"
    limits = "{0, 100000}" if tier == "quick" else "{0, 10000, 100000, 1000000}"
    consts = ["Depths = " + depths, "Limits = " + limits]
    mod, scns, st = lib.generate("MC_Deep", consts, ["DeepIsEncoding", "DExport"], init="DInit", next_="DNext", workers=2)
    res.states += st["distinct"]
    res.transitions += st["states"]
    rc, out, _ = lib.run_tlc("MC_Mod", "", names=False)
    mj = [m for m in lib.tlc_payload(out, "MOD") if m["name"] == "VE"][0]
    M = Module(mj)
    for san in (("plain",) if tier == "quick" else ("plain", "asan")):
        b = lib.build_module(M, san=san)
        if not b.ok:
            raise Infra("build failed: " + b.err)
        import subprocess, tempfile, shutil
        work = tempfile.mkdtemp(prefix="c15-", dir=lib.SCRATCH)
        evs = []
        try:
            for s in scns:
                sp, ep = os.path.join(work, "s"), os.path.join(work, "e")
                segs = " ".join("%dx%s" % (g["n"], bytes(g["b"]).hex()) for g in s["segs"])
                open(sp, "w").write("S %d %s\nDG 1 %s %d %s\n" % (s["id"], s["ty"], s["syn"], s.get("limit", 0), segs))
                env = dict(os.environ, ASAN_OPTIONS="detect_leaks=0:abort_on_error=1:detect_stack_use_after_return=0", UBSAN_OPTIONS="halt_on_error=1:abort_on_error=1")
                try:
                    r = subprocess.run("ulimit -s 8192; exec %s %s %s" % (b.driver, sp, ep), shell=True, stdout=subprocess.PIPE, stderr=subprocess.STDOUT,
                                       text=True, errors="replace", timeout=120, env=env)
                    rc_, tail = r.returncode, r.stdout[-400:]
                except subprocess.TimeoutExpired:
                    rc_, tail = -14, "timeout"
                got = []
                if os.path.exists(ep):
                    for line in open(ep, errors="replace"):
                        try:
                            got.append(json.loads(line))
                        except ValueError:
                            pass
                big = [e for e in got if e.get("a") in ("DecodeBig", "Crash", "Timeout")]
                if big:
                    e = big[-1]
                    e["id"] = s["id"]
                    evs.append(e)
                else:
                    evs.append({"id": s["id"], "a": "Timeout" if rc_ == -14 else "Crash", "sig": rc_, "detail": tail})
        finally:
            shutil.rmtree(work, ignore_errors=True)
        mism, tot = lib.judge("MC_Deep", None, scns, evs, constants=consts, shards=2)
        mism = expand(mism)
        res.states += tot["distinct"]
        res.transitions += tot["states"]
        res.sessions += len(scns)
        res.events += len(evs)
        byid = {s["id"]: s for s in scns}
        evid = {e["id"]: e for e in evs}
        for s in scns:
            res.distinct.add((s["ty"], s["syn"], s["kind"], s.get("depth"), s.get("limit"), san))
        res.samples.append({"scenario": scns[len(scns) // 3], "event": evid[scns[len(scns) // 3]["id"]], "build": san})
        for m in mism:
            s = byid[m["id"]]
            sig = {"op": "deep", "ty": s["ty"], "syn": s["syn"], "kind": s["kind"], "reason": m["reason"], "style": san}
            f = None
            for kf in known:
                for alt in (kf["match"] if isinstance(kf["match"], list) else [kf["match"]]):
                    mt = {k: v for k, v in alt.items() if k != "pred"}
                    if mt.get("op") == "deep" and lib.finding_matches({"match": mt}, sig):
                        f = kf
            if f:
                res.known[f["id"]] = res.known.get(f["id"], 0) + 1
            else:
                res.violations.append((sig, {"property": "C15", "signature": sig, "scenario": s, "event": evid[m["id"]]}))
        log("C15 build %s: %d inputs, %d violations so far, %.0fs" % (san, len(scns), len(res.violations), time.time() - t0))
    return finish(res, tier, seed, "exploration", t0,
                  "closed-form inputs of spec/MC_Deep.tla: nesting depth {1..6, 100, 1000, 10^4, 10^5} of SEQUENCE OF recursion (BER indefinite, OER, UPER, XER), SEQUENCE recursion (BER, OER) and nested constructed OCTET STRINGs, and of nested indefinite-length TLVs inside an unknown extension addition that is skipped (up to 10^6 levels, complete and cut off), under the default and caller-supplied stack limits, on an 8 MiB stack; length prefixes of 2^31-1 / 2^30 / 64K fragments with nothing behind them; SEQUENCE OF NULL with maximal counts; the decoder must return (OK / FAIL / WMORE, no fatal signal, no timeout) and its peak heap must stay below 256 * n + 1 MiB for n input octets",
                  ["MC_Deep.tla: closed forms equal the reference encodings for depth <= 6 (invariant DeepIsEncoding)", "the link-time wrapped allocator supplies the heap peak", "TLC, Json module, python glue"])


# ---- unber / enber (C20) ----------------------------------------------------------------------------
def check_C20(tier, seed):
    import subprocess, tempfile, shutil, re
    from concurrent.futures import ThreadPoolExecutor
    t0 = time.time()
    res = Result("C20")
    known = lib.load_findings("C20")
    consts = ["Rich = %s" % ("TRUE" if tier == "thorough" else "FALSE")]
    _, scns, st = lib.generate("MC_Tlv", consts, ["FieldsSound", "Export"], workers=4)
    res.states += st["distinct"]
    res.transitions += st["states"]
    seen, uniq = set(), []
    for s in scns:
        key = (s["mode"], bytes(s["bytes"]))
        if key not in seen:
            seen.add(key)
            uniq.append(s)
    scns = uniq
    if tier == "quick":
        rt = [s for s in scns if s["mode"] == "roundtrip"]
        mu = [s for s in scns if s["mode"] == "mutate"]
        scns = rt + mu[::max(1, len(mu) // 6000)] + [s for s in scns if s["mode"] == "pad"]
    for i, s in enumerate(scns):
        s["id"] = i + 1
    tools = lib.build_tools("asan")
    work = tempfile.mkdtemp(prefix="c20-", dir=lib.SCRATCH)
    env = dict(os.environ, ASAN_OPTIONS="detect_leaks=0:abort_on_error=1", UBSAN_OPTIONS="halt_on_error=1:abort_on_error=1")
    tagre = re.compile(r'^\s*<([PCI]) O="(\d+)" T="\[(?:(UNIVERSAL|APPLICATION|PRIVATE) )?(\d+)\]" TL="(\d+)" V="(\d+|Indefinite)"')

    def one(s):
        p = os.path.join(work, "x%d.ber" % s["id"])
        open(p, "wb").write(bytes(s["bytes"]))
        try:
            r = subprocess.run([tools["unber"], "-p", p], stdout=subprocess.PIPE, stderr=subprocess.PIPE, timeout=20, env=env)
            urc, uout, uerr = r.returncode, r.stdout, r.stderr
        except subprocess.TimeoutExpired:
            urc, uout, uerr = -14, b"", b"timeout"
        ev = {"id": s["id"], "a": "Tools", "unber_exit": urc if urc >= 0 else 0, "unber_signal": -urc if urc < 0 else 0,
              "unber_diag": bool(uerr.strip()), "detail": uerr.decode(errors="replace")[-300:]}
        try:
            r3 = subprocess.run([tools["unber"], p], stdout=subprocess.PIPE, stderr=subprocess.PIPE, timeout=20, env=env)
            prc = r3.returncode
            if prc < 0:
                ev["pretty_detail"] = r3.stderr.decode(errors="replace")[-400:]
        except subprocess.TimeoutExpired:
            prc = -14
        ev.update({"pretty_exit": prc if prc >= 0 else 0, "pretty_signal": -prc if prc < 0 else 0})
        if s["mode"] == "roundtrip":
            fields = []
            for line in uout.decode(errors="replace").splitlines():
                mm = tagre.match(line)
                if mm:
                    cl = {"UNIVERSAL": "U", "APPLICATION": "A", "PRIVATE": "P", None: "C"}[mm.group(3)]
                    fields.append({"o": int(mm.group(2)), "cl": cl, "num": int(mm.group(4)), "form": mm.group(1), "tl": int(mm.group(5)),
                                   "v": -1 if mm.group(6) == "Indefinite" else int(mm.group(6))})
            ev["fields"] = fields
            try:
                r2 = subprocess.run([tools["enber"], "-"], input=uout, stdout=subprocess.PIPE, stderr=subprocess.PIPE, timeout=20, env=env)
                erc, eout = r2.returncode, r2.stdout
                ev["enber_detail"] = r2.stderr.decode(errors="replace")[-200:]
            except subprocess.TimeoutExpired:
                erc, eout = -14, b""
            ev.update({"enber_exit": erc if erc >= 0 else 0, "enber_signal": -erc if erc < 0 else 0, "enber_bytes": list(eout)})
        os.unlink(p)
        return ev
    try:
        with ThreadPoolExecutor(lib.NCPU) as ex:
            evs = list(ex.map(one, scns))
    finally:
        shutil.rmtree(work, ignore_errors=True)
    mism, tot = lib.judge("MC_Tlv", None, scns, evs, constants=consts, shards=8)
    mism = expand(mism)
    res.states += tot["distinct"]
    res.transitions += tot["states"]
    res.sessions += len(scns)
    res.events += len(evs)
    byid = {s["id"]: s for s in scns}
    evid = {e["id"]: e for e in evs}
    for s in scns:
        res.distinct.add((s["mode"], bytes(s["bytes"])))
    rt0 = next(s for s in scns if s["mode"] == "roundtrip" and len(s["bytes"]) > 8)
    res.samples.append({"bytes": bytes(rt0["bytes"]).hex(), "fields": rt0["fields"], "event": evid[rt0["id"]]})
    for m in mism:
        s = byid[m["id"]]
        def min_tl(f):
            ident = 1 if f["num"] < 31 else 1 + max(1, (f["num"].bit_length() + 6) // 7)
            ln = 1 if f["v"] < 128 else 1 + (f["v"].bit_length() + 7) // 8
            return ident + ln
        padded = s["mode"] == "roundtrip" and any(f["v"] >= 0 and f["tl"] > min_tl(f) for f in s["fields"])
        sig = {"op": "tools", "mode": s["mode"], "reason": m["reason"], "style": "padded-length" if padded else "minimal-lengths"}
        f = None
        for kf in known:
            for alt in (kf["match"] if isinstance(kf["match"], list) else [kf["match"]]):
                if alt.get("op") == "tools" and lib.finding_matches({"match": {k: v for k, v in alt.items() if k != "pred"}}, sig):
                    f = kf
        if f:
            res.known[f["id"]] = res.known.get(f["id"], 0) + 1
        else:
            res.violations.append((sig, {"property": "C20", "signature": sig, "bytes": bytes(s["bytes"]).hex(), "scenario": s, "event": evid[m["id"]]}))
    res.notes["round_trips"] = len([s for s in scns if s["mode"] == "roundtrip"])
    res.notes["mutants"] = len([s for s in scns if s["mode"] == "mutate"])
    return finish(res, tier, seed, "model_checking", t0,
                  "TLV forests enumerated by TLC (depth <= 3, up to 2 children / 2 top-level nodes, all four tag classes, tag numbers 0 2 4 16 17 30 31 127 128 300 16383 16384 and, in every class, the numbers at which the identifier grows by an octet up to 2^30 - 1, contents of 0 / 1 / 2 / 127 / 128 octets, minimal / padded long-form / indefinite lengths): unber -p on Ser(forest) must print exactly Fields(forest) and enber must reproduce the octets; truncations and byte substitutions of every forest's octets (quick: a sample of 6000): unber must end by exit, with a diagnostic when it fails; the same for closed-form inputs whose tag or length field is padded to 2..127 octets, at top level and inside definite / indefinite parents with little or much of the parent left; both tools are built with ASan+UBSan from the working tree",
                  ["MC_Tlv.tla (X.690 8.1 identifier / length octets) is the reference", "TLC, Json module, python glue (parsing of the unber -p text)"])


# ---- compiler pipeline (C10) ------------------------------------------------------------------
C10_OPTIONS = ["-fcompound-names", "-fwide-types", "-findirect-choice", "-fno-constraints", "-no-gen-PER", "-no-gen-OER", "-fincludes-quoted"]


class TextModule:
    """a hand-written ASN.1 module (harness/fixtures) behind the interface build_module() needs"""
    def __init__(self, name, text):
        import re
        self.name, self._text = name, text
        self.mod = {"name": name, "tagging": "?", "defs": [{"n": n} for n in re.findall(r"^([A-Z][A-Za-z0-9-]*)\s*::=", text, re.M)]}

    def text(self):
        return self._text


def check_C10(tier, seed):
    import subprocess
    from concurrent.futures import ThreadPoolExecutor
    t0 = time.time()
    res = Result("C10")
    known = lib.load_findings("C10")
    # sources: the universe modules (valid programs) and fault-injected modules from the C11 generator
    mods = {}
    rc, out, st = lib.run_tlc("MC_Mod", "", names=False)
    for m in lib.tlc_payload(out, "MOD"):
        if m["name"] in (("VE", "VA", "VI", "VC", "VO", "VP", "VQ") if tier == "thorough" else ("VE", "VA", "VC", "VO")):
            mods[m["name"]] = Module(m)
    import glob
    for f in sorted(glob.glob(os.path.join(lib.VERIF, "harness", "fixtures", "*.asn1"))):
        k = "Z" + "".join(c for c in os.path.basename(f)[:-5] if c.isalnum())
        mods[k] = TextModule(k, open(f).read())
    _, legal, st2 = lib.generate("MC_Legal", ["MaxComps = 2", "Rich = TRUE"], ["Export"], workers=4)
    res.states += st2["distinct"]
    res.transitions += st2["states"]
    faulty = [s for s in legal if not s["legal"]]
    step = max(1, len(faulty) // (40 if tier == "quick" else 200))
    faults = {"F%d" % i: Module(s["mod"]) for i, s in enumerate(faulty[::step])}
    sources = sorted(mods) + sorted(faults)
    consts = ["Sources = {%s}" % ", ".join('"%s"' % x for x in sources),
              "Options = {%s}" % ", ".join('"%s"' % o for o in C10_OPTIONS),
              "AllSubsets = %s" % ("TRUE" if tier == "thorough" else "FALSE")]
    _, runs, st = lib.generate("MC_Pipeline", consts, ["TypeOK", "Export"], workers=4)
    res.states += st["distinct"]
    res.transitions += st["states"]
    # fault-injected sources only need the compiler stage; run them with a few option sets
    runs = [r for r in runs if r["src"] in mods or len(r["opts"]) <= 1]
    for i, r in enumerate(runs):
        r["id"] = i + 1
    lib.ensure_mirror()

    def one(r):
        evs = []
        flags = list(r["opts"])
        if r["src"] in faults:
            a = run_asn1c(faults[r["src"]].text(), flags=flags)
            evs.append({"id": r["id"], "a": "Asn1c", "exit": a["exit"], "signal": a["signal"], "diag": a["diag"], "stderr": a["stderr"]})
            return evs
        M = mods[r["src"]]
        b = lib.build_module(M, flags=flags)
        evs.append({"id": r["id"], "a": "Asn1c", "exit": b.asn1c_rc if b.asn1c_rc >= 0 else 0, "signal": -b.asn1c_rc if b.asn1c_rc < 0 else 0,
                    "diag": bool(b.asn1c_out.strip()), "stderr": b.asn1c_out[-300:]})
        if b.asn1c_rc != 0:
            return evs
        ccbad = b.err.startswith("cc failed")
        evs.append({"id": r["id"], "a": "CC", "status": 1 if ccbad else 0, "detail": b.err[-600:] if ccbad else ""})
        if ccbad:
            return evs
        # C++ compatibility of the generated headers
        hdrs = sorted(f for f in os.listdir(b.dir) if f.endswith(".h") and os.path.exists(os.path.join(b.dir, f[:-2] + ".c")) and not f.startswith("verif"))
        cxx = os.path.join(b.dir, "verif_cxx.cc")
        if not os.path.exists(cxx + ".done"):
            open(cxx, "w").write("".join('#include "%s"\n' % h for h in hdrs) + "int main() { return 0; }\n")
            rr = lib.sh(["g++", "-fsyntax-only", "-w", "-I.", "-I" + lib.ensure_mirror()["skeletons"], "verif_cxx.cc"], cwd=b.dir)
            open(cxx + ".done", "w").write(json.dumps({"rc": rr.returncode, "out": rr.stdout[-600:]}))
        cx = json.load(open(cxx + ".done"))
        evs.append({"id": r["id"], "a": "CXX", "status": 1 if cx["rc"] else 0, "detail": cx["out"]})
        if cx["rc"]:
            return evs
        lkbad = b.err.startswith("link failed")
        evs.append({"id": r["id"], "a": "Link", "status": 1 if lkbad else 0, "detail": b.err[-600:] if lkbad else ""})
        if lkbad or not b.ok:
            return evs
        dout = os.path.join(b.dir, "verif_descr.json")
        rr = subprocess.run([b.driver, "--descriptors", dout], stdout=subprocess.PIPE, stderr=subprocess.STDOUT, text=True, timeout=120)
        try:
            dj = json.loads(open(dout).read())
        except Exception:
            dj = {"ok": False, "err": "descriptor walk died: rc=%s %s" % (rr.returncode, rr.stdout[-300:]), "where": ""}
        evs.append({"id": r["id"], "a": "Descr", "ok": bool(dj.get("ok")), "detail": "%s %s" % (dj.get("err"), dj.get("where")),
                    "descriptors": dj.get("descriptors", 0)})
        return evs
    evs = []
    with ThreadPoolExecutor(4) as ex:
        for e in ex.map(one, runs):
            evs += e
    mism, tot = lib.judge("MC_Pipeline", None, runs, evs, constants=consts, shards=2)
    mism = expand(mism)
    res.states += tot["distinct"]
    res.transitions += tot["states"]
    res.sessions += len(runs)
    res.events += len(evs)
    byid = {r["id"]: r for r in runs}
    evid = {}
    for e in evs:
        evid.setdefault(e["id"], []).append(e)
    for r in runs:
        res.distinct.add((r["src"], tuple(r["opts"])))
    res.samples.append({"run": runs[len(runs) // 2], "events": evid.get(runs[len(runs) // 2]["id"])})
    for m in mism:
        r = byid[m["id"]]
        sig = {"op": "pipeline", "module": r["src"] if r["src"] in mods else "fault-injected", "style": " ".join(r["opts"]), "reason": m["reason"]}
        f = None
        for kf in known:
            for alt in (kf["match"] if isinstance(kf["match"], list) else [kf["match"]]):
                mt = dict(alt)
                pred = mt.pop("pred", None)
                if mt.get("op") == "pipeline" and lib.finding_matches({"match": mt}, sig) and (not pred or F.MPREDS[pred](r, evid.get(m["id"]))):
                    f = kf
        if f:
            res.known[f["id"]] = res.known.get(f["id"], 0) + 1
        else:
            res.violations.append((sig, {"property": "C10", "signature": sig, "run": r, "events": evid.get(m["id"]),
                                         "module_text": (mods.get(r["src"]) or faults[r["src"]]).text()}))
    return finish(res, tier, seed, "exploration", t0,
                  "runs = (source module, option set): the universe modules VE / VA / VC (thorough: + VI) under no option, each of -fcompound-names -fwide-types -findirect-choice -fno-constraints -no-gen-PER -no-gen-OER -fincludes-quoted alone and all together (thorough: all 128 subsets): asn1c exit status, compilation of every emitted file with the project's own flags (gnu99), g++ -fsyntax-only over all generated headers, link of libasncodec + driver, descriptor self-consistency walk (offsets within structures, sorted tag maps, optional-member tables, inverse canonical maps); fault-injected modules from the C11 generator x {no option, each option}: exit by status with a diagnostic, never a signal",
                  ASSUME_COMPILER + ["TLA+ contributes the run enumeration and the pipeline protocol monitor; 'this C file compiles' is observed with gcc/g++"])


CHECKS = {"C01": check_C01, "C02": check_C02, "C03": check_C03, "C04": check_C04, "C05": check_C05, "C06": check_C06, "C07": check_C07, "C08": check_C08, "C14": check_C14,
          "C09": check_C09, "C10": check_C10, "C11": check_C11, "C12": check_C12, "C13": check_C13, "C15": check_C15, "C16": check_C16, "C19": check_C19, "C17": check_C17, "C20": check_C20, "C18": check_C18}


def replay(prop, path):
    p = json.load(open(path))
    if not (isinstance(p.get("module"), dict) and "scenario" in p and "trace_module" in p):
        # compiler runs, helper calls, tool runs, thread schedules: re-run the check that produced the payload and
        # look for the same signature
        os.environ["VERIF_REPLAY_SIG"] = json.dumps(p["signature"])
        os.environ["VERIF_REPLAY_PATH"] = path
        return CHECKS[prop](p.get("tier", "quick"), int(os.environ.get("VERIF_SEED", "1")))
    res = Result(prop)
    M = Module(p["module"])
    scn = dict(p["scenario"], id=1)
    run_sessions(res, M, p["module"], [scn], p.get("trace_module", "Trace_Codec"), san=p.get("san", "plain"),
                 flags=p.get("flags", ()), known=(), constants=tuple(p.get("constants", ("Mod <- TheMod", "ByteExact = TRUE"))))
    if res.violations:
        print("VIOLATION property=%s replay=%s" % (prop, path))
        return 1
    print("replay: property held for this scenario")
    return 0


def main(argv):
    ap = argparse.ArgumentParser()
    ap.add_argument("prop")
    ap.add_argument("--tier", default=os.environ.get("VERIF_TIER", "quick"), choices=["quick", "thorough"])
    ap.add_argument("--replay")
    a = ap.parse_args(argv)
    seed = int(os.environ.get("VERIF_SEED", "1"))
    random.seed(seed)
    try:
        if a.replay:
            return replay(a.prop, a.replay)
        if a.prop not in CHECKS:
            print("no check for " + a.prop, file=sys.stderr)
            return 2
        # replay files of an earlier run describe an earlier tree
        import shutil
        shutil.rmtree(os.path.join(lib.VERIF, "replays", a.prop), ignore_errors=True)
        return CHECKS[a.prop](a.tier, seed)
    except Infra as e:
        print("INFRA-FAILURE: %s" % e, file=sys.stderr)
        return 2
    except Exception:
        traceback.print_exc()
        return 2
