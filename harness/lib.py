"""Orchestration: builds from /repo's working tree, TLC runs (generator and judge),
driver execution with crash recovery, evidence and known-finding handling."""
import os, sys, json, re, subprocess, hashlib, time, fcntl, shutil, glob, tempfile
from concurrent.futures import ThreadPoolExecutor

from asn1gen import Module, Malformed

VERIF = os.path.dirname(os.path.dirname(os.path.abspath(__file__)))
SPEC = os.path.join(VERIF, "spec")
REPO = os.environ.get("VERIF_REPO", "/repo")
SCRATCH = os.environ.get("VERIF_SCRATCH", "/var/tmp/asn1c-verif")
NCPU = os.cpu_count() or 4
TLC_CP = "/opt/veriftools/tla/tla2tools.jar:/opt/veriftools/tla/CommunityModules-deps.jar"


class Infra(Exception):
    """failure of the machinery itself (exit 2, never a VIOLATION)"""


def log(*a):
    print(*a, file=sys.stderr, flush=True)


def sh(cmd, **kw):
    return subprocess.run(cmd, stdout=subprocess.PIPE, stderr=subprocess.STDOUT, text=True, **kw)


# ---- build of asn1c itself from /repo's current working tree --------------------
class locked:
    def __init__(self, name):
        os.makedirs(SCRATCH, exist_ok=True)
        self.path = os.path.join(SCRATCH, name + ".lock")

    def __enter__(self):
        self.f = open(self.path, "w")
        fcntl.flock(self.f, fcntl.LOCK_EX)

    def __exit__(self, *a):
        fcntl.flock(self.f, fcntl.LOCK_UN)
        self.f.close()


_mirror = None


def ensure_mirror():
    """rsync the working tree (with its configured build state) to scratch and run make
    there: incremental, and /repo itself is never written to."""
    global _mirror
    if _mirror:
        return _mirror
    root = os.path.join(SCRATCH, "mirror")
    with locked("mirror"):
        r = sh(["rsync", "-a", "--delete", "--exclude", "/tests", "--exclude", "/.git", "--exclude", "/doc",
                "--exclude", "/examples", REPO.rstrip("/") + "/", root + "/"])
        if r.returncode:
            raise Infra("rsync failed: " + r.stdout[-500:])
        for d in ("libasn1common", "libasn1parser", "libasn1fix", "libasn1print", "libasn1compiler", "asn1c",
                  "asn1-tools"):
            r = sh(["make", "-j%d" % NCPU, "-C", os.path.join(root, d)])
            if r.returncode:
                raise Infra("build of %s failed:\n%s" % (d, r.stdout[-3000:]))
        h = hashlib.sha256()
        for f in sorted(glob.glob(os.path.join(root, "skeletons", "*.[ch]"))):
            h.update(os.path.basename(f).encode())
            h.update(open(f, "rb").read())
        h.update(open(os.path.join(root, "asn1c", "asn1c"), "rb").read())
        stamp = h.hexdigest()[:16]
    _mirror = {"root": root, "asn1c": os.path.join(root, "asn1c", "asn1c"),
               "skeletons": os.path.join(root, "skeletons"), "stamp": stamp,
               "unber": os.path.join(root, "asn1-tools", "unber", "unber"),
               "enber": os.path.join(root, "asn1-tools", "enber", "enber")}
    return _mirror


def build_tools(san="asan"):
    """unber / enber built from the mirror's sources with sanitizers (the project's own binaries are not instrumented)"""
    m = ensure_mirror()
    h = hashlib.sha256()
    for f in ("asn1-tools/unber/unber.c", "asn1-tools/unber/libasn1_unber_tool.c", "asn1-tools/unber/libasn1_unber_tool.h", "asn1-tools/enber/enber.c"):
        h.update(open(os.path.join(m["root"], f), "rb").read())
    h.update(m["stamp"].encode())
    d = os.path.join(SCRATCH, "tools-%s-%s" % (san, h.hexdigest()[:16]))
    with locked("tools"):
        if not os.path.exists(os.path.join(d, "ok")):
            shutil.rmtree(d, ignore_errors=True)
            os.makedirs(d)
            cc, cf, lf = SAN_FLAGS[san]
            inc = ["-I" + os.path.join(m["root"], x) for x in ("", "libasn1common", "libasn1parser", "skeletons", "asn1-tools/unber")]
            common = glob.glob(os.path.join(m["root"], "libasn1common", "*.c"))
            for tool, srcs in (("unber", ["asn1-tools/unber/unber.c", "asn1-tools/unber/libasn1_unber_tool.c"]), ("enber", ["asn1-tools/enber/enber.c"])):
                r = sh(cc + cf + lf + ["-DHAVE_CONFIG_H"] + inc + [os.path.join(m["root"], x) for x in srcs] + common + ["-o", os.path.join(d, tool), "-lm"])
                if r.returncode:
                    raise Infra("cannot build %s: %s" % (tool, r.stdout[-1500:]))
            open(os.path.join(d, "ok"), "w").write("1")
            for old in glob.glob(os.path.join(SCRATCH, "tools-%s-*" % san)):
                if old != d:
                    shutil.rmtree(old, ignore_errors=True)
    return {"unber": os.path.join(d, "unber"), "enber": os.path.join(d, "enber")}


# ---- build of generated code + driver ----------------------------------------------
SAN_FLAGS = {
    "tsan": (["clang"], ["-O1", "-g", "-w", "-std=gnu99", "-fsanitize=thread", "-fno-omit-frame-pointer"], ["-fsanitize=thread"]),
    "plain": (["gcc"], ["-O1", "-g", "-w", "-std=gnu99"], []),
    # pointer-overflow and nonnull-attribute are left out: they only add "applying zero offset to null pointer"
    # (NULL + 0) and memcpy(dst, NULL, 0) on empty buffers, idioms the skeletons use everywhere (recorded once in
    # DESIGN.md as a finding class); out-of-bounds accesses are ASan's business
    "asan": (["clang"], ["-O1", "-g", "-w", "-std=gnu99", "-fsanitize=address,undefined", "-fno-sanitize=pointer-overflow,nonnull-attribute",
                         "-fno-sanitize-recover=undefined", "-fno-omit-frame-pointer"],
             ["-fsanitize=address,undefined"]),
}


def c_ident(name):
    return re.sub(r"[^A-Za-z0-9_]", "_", name)


class GenBuild:
    def __init__(self, d, driver, asn1c_rc, asn1c_out, ok, err=""):
        self.dir, self.driver, self.asn1c_rc, self.asn1c_out, self.ok, self.err = d, driver, asn1c_rc, asn1c_out, ok, err


def prune_cache(keep=40):
    """drops the oldest cached builds; never one that is being built or used right now (parallel builders,
    other checks): only finished builds untouched for 15 minutes are candidates"""
    base = os.path.join(SCRATCH, "gen")
    try:
        ds = sorted((os.path.join(base, d) for d in os.listdir(base)), key=os.path.getmtime)
    except OSError:
        return
    now = time.time()
    for d in ds[:-keep]:
        try:
            if os.path.exists(os.path.join(d, "verif-build.json")) and now - os.path.getmtime(d) > 900:
                shutil.rmtree(d, ignore_errors=True)
        except OSError:
            pass


def build_module(module, flags=(), san="plain", extra_sources=(), driver_src=None, wrap=True):
    """module: asn1gen.Module.  Returns GenBuild (cached by content)."""
    m = ensure_mirror()
    text = module.text()
    driver_src = driver_src or os.path.join(VERIF, "harness", "driver", "driver.c")
    key = hashlib.sha256(json.dumps([m["stamp"], text, list(flags), san, SAN_FLAGS[san], wrap, open(driver_src).read(),
                                     [open(x).read() for x in extra_sources]]).encode()).hexdigest()[:20]
    d = os.path.join(SCRATCH, "gen", key)
    with locked("gen-" + key):
        meta = os.path.join(d, "verif-build.json")
        if os.path.exists(meta):
            j = json.load(open(meta))
            os.utime(d)
            return GenBuild(d, os.path.join(d, "driver"), j["asn1c_rc"], j["asn1c_out"], j["ok"], j.get("err", ""))
        shutil.rmtree(d, ignore_errors=True)
        os.makedirs(d)
        open(os.path.join(d, "module.asn1"), "w").write(text)
        r = sh([m["asn1c"], "-S", m["skeletons"], "-no-gen-example"] + list(flags) + ["module.asn1"], cwd=d)
        res = {"asn1c_rc": r.returncode, "asn1c_out": r.stdout[-4000:], "ok": False}
        if r.returncode == 0:
            mk = open(os.path.join(d, "Makefile.am.libasncodec")).read().replace("\\\n", " ")
            srcs, cflags = [], []
            for line in mk.splitlines():
                mm = re.match(r"ASN_MODULE_SRCS\+?=(.*)", line)
                if mm:
                    srcs += mm.group(1).split()
                mm = re.match(r"ASN_MODULE_CFLAGS\+?=(.*)", line)
                if mm:
                    cflags += mm.group(1).split()
            # table of the module's top-level descriptors
            with open(os.path.join(d, "verif_types.c"), "w") as f:
                f.write("#include <asn_application.h>\n")
                for df in module.mod["defs"]:
                    f.write("extern asn_TYPE_descriptor_t asn_DEF_%s;\n" % c_ident(df["n"]))
                f.write("struct verif_type { const char *name; asn_TYPE_descriptor_t *td; };\n")
                f.write("struct verif_type verif_types[] = {\n")
                for df in module.mod["defs"]:
                    f.write('  {"%s", &asn_DEF_%s},\n' % (df["n"], c_ident(df["n"])))
                f.write("  {0, 0}};\n")
            cc, cf, lf = SAN_FLAGS[san]
            inc = ["-I.", "-I" + m["skeletons"]]

            def comp(src):
                o = os.path.splitext(os.path.basename(src))[0] + ".o"
                rr = sh(cc + cf + cflags + inc + ["-c", src, "-o", o], cwd=d)
                return (src, rr.returncode, rr.stdout)
            allsrc = srcs + ["verif_types.c", driver_src] + list(extra_sources)
            with ThreadPoolExecutor(NCPU) as ex:
                results = list(ex.map(comp, allsrc))
            bad = [(s, o) for s, rc, o in results if rc]
            if bad:
                res["err"] = "cc failed: %s\n%s" % (bad[0][0], bad[0][1][-2000:])
            else:
                objs = [os.path.splitext(os.path.basename(s))[0] + ".o" for s in allsrc]
                rr = sh(cc + lf + objs + ["-o", "driver", "-lm", "-lpthread"] +
                        (["-Wl,--wrap=malloc,--wrap=calloc,--wrap=realloc,--wrap=free"] if wrap else []), cwd=d)
                if rr.returncode:
                    res["err"] = "link failed:\n" + rr.stdout[-2000:]
                else:
                    res["ok"] = True
            for o in glob.glob(os.path.join(d, "*.o")):
                os.unlink(o)
        json.dump(res, open(meta, "w"))
    prune_cache()
    return GenBuild(d, os.path.join(d, "driver"), res["asn1c_rc"], res["asn1c_out"], res["ok"], res.get("err", ""))


# ---- TLC ----------------------------------------------------------------------------
BUILTIN_NAMES = ["true", "false", "BOOLEAN", "NULL", "INTEGER", "ENUMERATED", "REAL", "BIT_STRING", "OCTET_STRING",
                 "OBJECT_IDENTIFIER", "RELATIVE-OID", "SEQUENCE", "SET", "CHOICE", "SEQUENCE_OF", "SET_OF", "IA5String",
                 "VisibleString", "PrintableString", "NumericString", "UTF8String", "BMPString", "UniversalString",
                 "UTCTime", "GeneralizedTime", "PLUS-INFINITY", "MINUS-INFINITY", "NOT-A-NUMBER", "zz-unknown", "id", "val", ""]
_names_file = None


def collect_names(t, acc):
    if isinstance(t, dict):
        for k, v in t.items():
            if k == "n" and isinstance(v, str):
                acc.add(v)
            else:
                collect_names(v, acc)
    elif isinstance(t, list):
        for x in t:
            collect_names(x, acc)


def names_file():
    """character codes of every identifier of the universe (TLC cannot take strings apart)"""
    global _names_file
    if _names_file:
        return _names_file
    h = hashlib.sha256()
    for f in ("Universe.tla", "Values.tla", "Asn1Types.tla"):
        h.update(open(os.path.join(SPEC, f), "rb").read())
    path = os.path.join(SCRATCH, "names-%s.json" % h.hexdigest()[:16])
    if not os.path.exists(path):
        rc, out, st = run_tlc("MC_Mod", "", names=False)
        mods = tlc_payload(out, "MOD")
        if rc != 0 or not mods:
            raise Infra("MC_Mod failed:\n" + tlc_error_excerpt(out))
        acc = set(BUILTIN_NAMES)
        for m in mods:
            collect_names(m, acc)
        os.makedirs(SCRATCH, exist_ok=True)
        tmp = path + ".%d" % os.getpid()
        json.dump({n: [ord(c) for c in n] for n in sorted(acc)}, open(tmp, "w"))
        os.replace(tmp, path)
    _names_file = path
    return path


def run_tlc(module, cfg_text, env=None, workers=1, timeout=900, heap="8g", extra=(), names=True):
    """runs TLC on spec/<module>.tla with the given config text; returns (rc, stdout, stats)"""
    meta = tempfile.mkdtemp(prefix="tlc-", dir=SCRATCH)
    cfg = os.path.join(meta, "run.cfg")
    open(cfg, "w").write(cfg_text)
    e = dict(os.environ)
    e.update(env or {})
    if names:
        e["VERIF_NAMES"] = names_file()
    cmd = ["timeout", str(timeout), "java", "-XX:+UseParallelGC", "-Xmx" + heap, "-Xss768m", "-cp", TLC_CP, "tlc2.TLC",
           "-workers", str(workers), "-metadir", os.path.join(meta, "states"), "-noGenerateSpecTE", "-config", cfg] + list(extra) + [module + ".tla"]
    t0 = time.time()
    r = subprocess.run(cmd, cwd=SPEC, env=e, stdout=subprocess.PIPE, stderr=subprocess.STDOUT, text=True, errors="replace")
    shutil.rmtree(meta, ignore_errors=True)
    out = r.stdout
    stats = {"wall_s": time.time() - t0, "states": 0, "distinct": 0, "depth": 0}
    mm = re.search(r"(\d+) states generated, (\d+) distinct states found", out)
    if mm:
        stats["states"], stats["distinct"] = int(mm.group(1)), int(mm.group(2))
    mm = re.search(r"depth of the complete state graph search is (\d+)", out)
    if mm:
        stats["depth"] = int(mm.group(1))
    return r.returncode, out, stats


def tlc_payload(out, tag):
    """lines printed by PrintT(<<tag, json-string>>)"""
    res = []
    pre = '<<"%s", "' % tag
    for line in out.splitlines():
        if line.startswith(pre) and line.endswith('">>'):
            res.append(json.loads(json.loads('"' + line[len(pre):-3] + '"')))
    return res


def tlc_error_excerpt(out):
    keep = [l for l in out.splitlines() if not l.startswith(("Linting", "Semantic", "Parsing", '<<"'))]
    return "\n".join(keep[-40:])


def generate(spec_module, constants, invariants, workers=1, timeout=900, init="Init", next_="Next", extra_cfg="", names=None):
    """Generator run: returns (module json, scenarios, stats)."""
    names = (spec_module in ("MC_Gen", "MC_Deep")) if names is None else names
    cfg = "CONSTANTS\n" + ("  NameCodes <- TheNames\n" if names else "") + "".join("  %s\n" % c for c in constants) + \
          "INIT %s\nNEXT %s\nINVARIANTS %s\nCHECK_DEADLOCK FALSE\n%s" % (init, next_, " ".join(invariants), extra_cfg)
    rc, out, stats = run_tlc(spec_module, cfg, workers=workers, timeout=timeout, names=names)
    if rc != 0:
        raise Infra("generator TLC run failed (rc=%d):\n%s" % (rc, tlc_error_excerpt(out)))
    mods = tlc_payload(out, "MOD")
    scns = tlc_payload(out, "SCN")
    for i, s in enumerate(scns):
        s["id"] = i + 1
    return (mods[0] if mods else None), scns, stats


# ---- driver ---------------------------------------------------------------------------
def op_line(module, scn, op):
    a = op["a"]
    ty = {"k": "REF", "n": scn["ty"]}
    if a == "Build":
        return "B %d %s" % (op["slot"], " ".join(module.tokens(ty, scn["val"])))
    if a == "BuildRep":
        return "B %d %s" % (op["slot"], " ".join(module.tokens(ty, scn["val"], op["rep"])))
    if a == "Encode":
        return "E %d %s" % (op["slot"], op["syn"])
    if a == "Decode":
        return "D %d %s W" % (op["slot"], op["syn"])
    if a in ("DecodeLit", "DecodeAny"):
        return "D %d %s X%s" % (op["slot"], op["syn"], bytes(op["bytes"]).hex())
    if a == "DecodeInto":
        return "D %d %s X%s I" % (op["slot"], op["syn"], bytes(op["bytes"]).hex())
    if a == "BuildZero":
        return "BZ %d" % op["slot"]
    if a == "Adopt":
        return "NOP Adopt"
    if a == "StartDecode":
        return "SD %d %s X%s" % (op["slot"], op["syn"], bytes(op["bytes"]).hex())
    if a == "DecodeCall":
        return "DC %d" % op["avail"]
    if a == "Compare":
        return "C %d %d" % (op["s1"], op["s2"])
    if a == "BuildVal":
        return "B %d %s" % (op["slot"], " ".join(module.tokens(ty, op["val"])))
    if a == "Check":
        return "KA %d" % op["slot"]
    if a == "Free":
        return "F %d" % op["slot"]
    if a == "Reset":
        return "R %d" % op["slot"]
    if a == "Print":
        return "P %d" % op["slot"]
    if a == "Arm":
        return "AF %d" % op["k"]
    if a == "EncodeCb":
        return "EC %d %s %d" % (op["slot"], op["syn"], op["failat"])
    if a == "EncodeBuf":
        return "EB %d %s %s" % (op["slot"], op["syn"], op["rel"])
    if a == "AllocSweepEnc":
        return "AS enc %d %s" % (op["slot"], op["syn"])
    if a == "AllocSweepDec":
        return "AS dec %s X%s" % (op["syn"], bytes(op["bytes"]).hex())
    if a == "TruncSweep":
        return "TS %s %s" % (op["syn"], "W" if op.get("bytes") is None or op.get("wire") else "X" + bytes(op["bytes"]).hex())
    if a == "EncodeCbSweep":
        return "ECS %d %s %s" % (op["slot"], op["syn"], op["mode"])
    raise Infra("no driver command for op " + a)


def script_for(module, scns):
    lines = []
    for s in scns:
        lines.append("S %d %s" % (s["id"], s["ty"]))
        for op in s["plan"]:
            lines.append(op_line(module, s, op))
    return lines


def run_driver(build, module, scns, timeout=600, env=None):
    """executes the sessions; a crash ends only the session it happened in"""
    events = []
    work = tempfile.mkdtemp(prefix="drv-", dir=SCRATCH)
    todo = list(scns)
    e = dict(os.environ)
    e["TZ"] = "UTC"      # local-time GeneralizedTime values are interpreted in the process zone (TimeText.tla assumes UTC)
    e.update({"ASAN_OPTIONS": "detect_leaks=0:abort_on_error=1:handle_abort=0:allocator_may_return_null=1",
              "UBSAN_OPTIONS": "halt_on_error=1:abort_on_error=1:print_stacktrace=1"})
    e.update(env or {})
    crashes = 0
    try:
        while todo:
            sp, ep = os.path.join(work, "script"), os.path.join(work, "events")
            open(sp, "w").write("\n".join(script_for(module, todo)) + "\n")
            try:
                r = subprocess.run([build.driver, sp, ep], env=e, timeout=timeout, stdout=subprocess.PIPE,
                                   stderr=subprocess.STDOUT, text=True, errors="replace")
                rc = r.returncode
                keylines = [l for l in r.stdout.splitlines() if "runtime error" in l or "ERROR: AddressSanitizer" in l
                            or "Assertion" in l or l.lstrip().startswith(("#0 ", "#1 ", "#2 ", "#3 "))]
                tail = "\n".join(keylines[:8]) or r.stdout[-600:]
            except subprocess.TimeoutExpired:
                rc, tail = -999, "timeout"
            got = []
            if os.path.exists(ep):
                for line in open(ep, errors="replace"):
                    try:
                        got.append(json.loads(line))
                    except ValueError:
                        pass
            if rc != 0 and got and got[-1]["a"] in ("Crash", "Timeout") and "detail" not in got[-1]:
                got[-1]["detail"] = tail[:900]
            events += got
            if rc == 0:
                break
            crashes += 1
            last = got[-1]["id"] if got else todo[0]["id"]
            if not got or got[-1]["a"] not in ("Crash", "Timeout"):
                events.append({"id": last, "i": (got[-1]["i"] + 1) if got and got[-1]["a"] != "Session" else 1,
                               "a": "Crash", "sig": rc, "detail": tail[:900]})
                if not got:
                    events.insert(len(events) - 1, {"id": last, "i": 0, "a": "Session", "ty": todo[0]["ty"], "found": True})
            ids = [s["id"] for s in todo]
            todo = todo[ids.index(last) + 1:]
            if crashes > 3000:
                raise Infra("driver keeps crashing (>3000 sessions); last: " + tail)
    finally:
        shutil.rmtree(work, ignore_errors=True)
    return events


def bytes_of(h):
    return list(bytes.fromhex(h))


def convert_events(module, scns, events):
    """driver JSON -> the vocabulary the trace specification reads"""
    byid = {s["id"]: s for s in scns}
    out = []
    for ev in events:
        ev = dict(ev)
        s = byid.get(ev["id"])
        if "bytes" in ev:
            ev["bytes"] = bytes_of(ev["bytes"])
        if ev["a"] == "Build" and s is not None and 0 < ev["i"] <= len(s["plan"]) and s["plan"][ev["i"] - 1]["a"] in ("BuildRep", "BuildVal"):
            ev["a"] = s["plan"][ev["i"] - 1]["a"]
        if ev["a"] == "DecodeLit" and s is not None and 0 < ev["i"] <= len(s["plan"]) and s["plan"][ev["i"] - 1]["a"] in ("DecodeAny", "DecodeInto"):
            ev["a"] = s["plan"][ev["i"] - 1]["a"]
        if ev["a"] == "Check":
            # does the message name a type?  "<name>: ..." with <name> a type or member name of the module
            msg = ev.get("msg", "")
            ev["named"] = ":" in msg and msg.split(":")[0] in module.all_names()
        if "val" in ev and s is not None:
            try:
                ev["val"] = module.unproject({"k": "REF", "n": s["ty"]}, ev["val"])
                ev["wf"] = True
            except Malformed:
                ev["val"] = 0
                ev["wf"] = False
        out.append(ev)
    return out


def judge(trace_module, mod_json, scns, events, constants=("Mod <- TheMod",), invariants=(), timeout=1800, shards=None):
    """Trace validation by TLC.  Returns (mismatches, stats).  Sessions are independent, so the
    log is cut into shards judged by parallel TLC processes."""
    if not scns:
        return [], {"states": 0, "distinct": 0, "events": 0, "wall_s": 0}
    shards = shards or max(1, min(NCPU // 2, len(scns) // 400 + 1))
    work = tempfile.mkdtemp(prefix="judge-", dir=SCRATCH)
    byid = {}
    for ev in events:
        byid.setdefault(ev["id"], []).append(ev)
    per = (len(scns) + shards - 1) // shards
    jobs = []
    for k in range(shards):
        part = scns[k * per:(k + 1) * per]
        if not part:
            continue
        # scenario ids are renumbered per shard (Scn[id] is positional)
        sp, tp, mp = [os.path.join(work, "%s%d.json" % (n, k)) for n in ("scn", "trace", "mod")]
        idmap = {}
        with open(sp, "w") as f:
            for i, s in enumerate(part):
                idmap[s["id"]] = i + 1
                f.write(json.dumps(dict(s, id=i + 1)) + "\n")
        n = 0
        with open(tp, "w") as f:
            for s in part:
                for ev in byid.get(s["id"], []):
                    f.write(json.dumps(dict(ev, id=idmap[s["id"]])) + "\n")
                    n += 1
        json.dump(mod_json, open(mp, "w"))
        jobs.append((k, sp, tp, mp, {v: kk for kk, v in idmap.items()}, n))
    names = trace_module in ("Trace_Codec", "MC_Deep")
    cfg = "CONSTANTS\n" + ("  NameCodes <- TheNames\n" if names else "") + "".join("  %s\n" % c for c in constants) + "INIT TInit\nNEXT TNext\n" + \
          ("INVARIANTS %s\n" % " ".join(invariants) if invariants else "") + \
          "POSTCONDITION TraceAccepted\nCHECK_DEADLOCK FALSE\n"

    def one(job):
        k, sp, tp, mp, back, n = job
        if n == 0:
            return k, 0, "", {"states": 0, "distinct": 0, "depth": 1, "wall_s": 0}, back, n
        rc, out, st = run_tlc(trace_module, cfg, env={"VERIF_SCENARIOS": sp, "VERIF_TRACE": tp, "VERIF_MODULE": mp},
                              workers=1, timeout=timeout, heap="6g", names=names)
        return k, rc, out, st, back, n
    mism, tot = [], {"states": 0, "distinct": 0, "events": 0, "wall_s": 0.0}
    try:
        with ThreadPoolExecutor(len(jobs)) as ex:
            for k, rc, out, st, back, n in ex.map(one, jobs):
                if n == 0:
                    continue
                if rc != 0 or st["depth"] != n + 1:
                    raise Infra("judge TLC run failed (rc=%d, depth=%d, events=%d):\n%s" % (rc, st["depth"], n, tlc_error_excerpt(out)))
                seen = set()
                for m in tlc_payload(out, "MISMATCH"):
                    m["id"] = back[m["id"]]
                    key = (m["id"], m["i"], json.dumps(m.get("reasons")))
                    if key not in seen:
                        seen.add(key)
                        mism.append(m)
                tot["states"] += st["states"]
                tot["distinct"] += st["distinct"]
                tot["events"] += n
                tot["wall_s"] = max(tot["wall_s"], st["wall_s"])
    finally:
        shutil.rmtree(work, ignore_errors=True)
    return mism, tot


# ---- known findings, evidence, verdict ------------------------------------------------
def load_findings(prop):
    p = os.path.join(VERIF, "known_findings.json")
    if not os.path.exists(p):
        return []
    return [f for f in json.load(open(p))["findings"] if f["status"] == "open"]


def finding_matches(f, sig):
    for k, v in f["match"].items():
        x = sig.get(k)
        if isinstance(v, list):
            if x not in v:
                return False
        elif x != v:
            return False
    return True


def write_evidence(prop, tier, seed, level, coverage, wall, violations, assumptions):
    os.makedirs(os.path.join(VERIF, "evidence"), exist_ok=True)
    ev = {"property_id": prop, "tier": tier, "seed": seed, "level": level, "coverage": coverage,
          "assumptions": assumptions, "wall_s": round(wall, 2), "violations": violations}
    tmp = os.path.join(VERIF, "evidence", ".%s.json.tmp" % prop)
    json.dump(ev, open(tmp, "w"), indent=1)
    os.replace(tmp, os.path.join(VERIF, "evidence", prop + ".json"))


def write_replay(prop, name, payload):
    d = os.path.join(VERIF, "replays", prop)
    os.makedirs(d, exist_ok=True)
    p = os.path.join(d, name + ".json")
    json.dump(payload, open(p, "w"), indent=1)
    return p
